#!/bin/bash
# usage: seedtest.sh <dir containing patch.diff [demo/]> <Cxx> [more checks...]
# Applies a seeded change in a scratch worktree of /repo (never in /repo itself), confirms that
# it builds and that the repository's own suite still passes, runs the quick checks named on the
# command line against that tree, prints one line per check, and removes the worktree.
set -u
VERIF_DIR="$(cd "$(dirname "$0")" && pwd)"
SRC="$(cd "$1" && pwd)"; shift
WT="$(mktemp -d /tmp/jdmc-seed.XXXXXX)"
TAG="$(echo -n "$WT" | md5sum | cut -c1-10)"
cleanup() { git -C /repo worktree remove --force "$WT" >/dev/null 2>&1; rm -rf "$WT" "$VERIF_DIR/.work/bin-$TAG" "$VERIF_DIR/.work/seed-ev-$TAG"; }
trap cleanup EXIT
rmdir "$WT"; git -C /repo worktree add -q --detach "$WT" HEAD || exit 3
if ! git -C "$WT" apply "$SRC/patch.diff"; then echo "SEEDTEST $SRC: patch does not apply"; exit 3; fi
if "$VERIF_DIR/baseline.sh" "$WT" >"$WT.baseline" 2>&1; then echo "SEEDTEST suite: passes with the change ($(head -1 "$WT.baseline"))"; else echo "SEEDTEST suite: FAILS with the change"; head -5 "$WT.baseline"; fi
rm -f "$WT.baseline"
export VERIF_STOP_AT="${VERIF_STOP_AT:-5}"
export JD_REPO="$WT" VERIF_EVIDENCE_DIR="$VERIF_DIR/.work/seed-ev-$TAG" VERIF_REPLAY_DIR="$VERIF_DIR/.work/seed-ev-$TAG/replays"
mkdir -p "$VERIF_EVIDENCE_DIR"
for C in "$@"; do
  case "$C" in C15|C17) unset JDMC_SKIP_RACE;; *) export JDMC_SKIP_RACE=1;; esac
  OUT="$("$VERIF_DIR/run.sh" "$C" quick 2>&1)"; RC=$?
  FIRST="$(echo "$OUT" | grep -A2 -m1 '^VIOLATION' | tr '\n' ' ' | cut -c1-600)"
  echo "SEEDTEST $C exit=$RC $(echo "$OUT" | grep -c '^VIOLATION') violation lines | $FIRST"
done

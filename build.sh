#!/bin/bash
# Rebuilds the explorer and the two jd CLIs from /repo's current working tree. Offline.
set -e
VERIF_DIR="$(cd "$(dirname "$0")" && pwd)"
export GOFLAGS=-mod=mod GOPROXY=off
unset GOSUMDB GOTOOLCHAIN || true
W="$VERIF_DIR/.work"
mkdir -p "$W/bin" "$W/tmp"
(
  flock 9
  cd "$VERIF_DIR/mc"
  cat /repo/go.sum /repo/v2/go.sum | sort -u > go.sum.new
  cmp -s go.sum.new go.sum || cp go.sum.new go.sum
  rm -f go.sum.new
  go build -o "$W/bin/jdmc" . 
  (cd /repo/v2 && go build -o "$W/bin/jd-v2" ./jd)
  (cd /repo && go build -o "$W/bin/jd-top" .)
) 9>"$W/build.lock"

#!/bin/bash
# Rebuilds the explorer and the two jd CLIs from the repository's current working tree. Offline.
# JD_REPO (default /repo) selects the tree; a non-default tree gets its own build directory so
# that seeded changes can be exercised in scratch worktrees without touching /repo.
set -e
VERIF_DIR="$(cd "$(dirname "$0")" && pwd)"
export GOFLAGS=-mod=mod GOPROXY=off
unset GOSUMDB GOTOOLCHAIN || true
REPO="${JD_REPO:-/repo}"
W="$VERIF_DIR/.work"
BIN="$W/bin"
MODFLAG=""
if [ "$REPO" != "/repo" ]; then
  TAG="$(echo -n "$REPO" | md5sum | cut -c1-10)"
  BIN="$W/bin-$TAG"
fi
mkdir -p "$BIN" "$W/tmp"
(
  flock 9
  cd "$VERIF_DIR/mc"
  if [ "$REPO" = "/repo" ]; then
    cat /repo/go.sum /repo/v2/go.sum | sort -u > go.sum.new
    cmp -s go.sum.new go.sum || cp go.sum.new go.sum
    rm -f go.sum.new
    go build -o "$BIN/jdmc" .
  else
    sed "s#=> /repo/v2#=> $REPO/v2#; s#=> /repo\$#=> $REPO#" go.mod > "$BIN/alt.mod"
    cat "$REPO/go.sum" "$REPO/v2/go.sum" | sort -u > "$BIN/alt.sum"
    go build -modfile="$BIN/alt.mod" -o "$BIN/jdmc" .
  fi
  # map-order-controlled build (C15 order leg): rewrite map ranges of $REPO/v2 into an overlay
  rm -f "$BIN/jdmc-ord"
  MO="$BIN/maporder-overlay"
  rm -rf "$MO"; mkdir -p "$MO"
  if go build -o "$BIN/maporder" ./cmd/maporder && "$BIN/maporder" "$REPO/v2" "$MO" >&2; then
    if [ "$REPO" = "/repo" ]; then
      go build -tags verifmaporder -overlay "$MO/overlay.json" -o "$BIN/jdmc-ord" . || echo "build.sh: map-order build failed; the C15 order leg will be skipped" >&2
    else
      go build -modfile="$BIN/alt.mod" -tags verifmaporder -overlay "$MO/overlay.json" -o "$BIN/jdmc-ord" . || echo "build.sh: map-order build failed; the C15 order leg will be skipped" >&2
    fi
  else
    echo "build.sh: maporder rewrite failed; the C15 order leg will be skipped" >&2
  fi
  # free-running race-detector pass (C15, C17): built with -race; skipped if that build is not possible
  rm -f "$BIN/jdmc-race"
  if [ -n "${JDMC_SKIP_RACE:-}" ]; then
    : # (seedtest.sh sets this for checks that have no concurrency leg: the -race build costs about 30 s per tree)
  elif [ "$REPO" = "/repo" ]; then
    go build -race -o "$BIN/jdmc-race" ./cmd/racer || echo "build.sh: -race build failed; the concurrency leg will be skipped" >&2
  else
    go build -modfile="$BIN/alt.mod" -race -o "$BIN/jdmc-race" ./cmd/racer || echo "build.sh: -race build failed; the concurrency leg will be skipped" >&2
  fi
  (cd "$REPO/v2" && go build -o "$BIN/jd-v2" ./jd)
  (cd "$REPO" && go build -o "$BIN/jd-top" .)
) 9>"$W/build.lock"
echo "$BIN"

#!/bin/bash
# Runs the repository's own test suites (guard off: there are no hooks) and compares the set of
# passing tests with /root/.vp/BASELINE.json stable_pass. usage: baseline.sh [repo-dir]
REPO="${1:-/repo}"
export GOFLAGS=-mod=mod GOPROXY=off
OUT="$(mktemp -d /verif/.work/baseline.XXXXXX)"
for m in . ./v2; do (cd "$REPO/$m" && go test -json -vet=off -count=1 -timeout 25m ./... ) >> "$OUT/t.json" 2>/dev/null; done
python3 - "$OUT/t.json" <<'PY'
import json,sys
passed=set(); failed=set()
for l in open(sys.argv[1]):
    try: e=json.loads(l)
    except Exception: continue
    if e.get('Test') and e.get('Action') in('pass','fail'):
        (passed if e['Action']=='pass' else failed).add(e['Package']+'::'+e['Test'])
base=set(json.load(open('/root/.vp/BASELINE.json'))['stable_pass'])
missing=sorted(base-passed)
print(f"baseline stable_pass={len(base)} passed_now={len(passed)} failed_now={len(failed)} missing_from_pass={len(missing)}")
for m in missing[:40]: print("  NOT PASSING:",m)
sys.exit(1 if missing else 0)
PY
rc=$?
rm -rf "$OUT"
exit $rc

#!/bin/bash
set -e
VERIF_DIR="$(cd "$(dirname "$0")" && pwd)"
mkdir -p "$VERIF_DIR/.work"
"$VERIF_DIR/build.sh"
"$VERIF_DIR/.work/bin/jdmc" selftest

#!/bin/bash
set -e
VERIF_DIR="$(cd "$(dirname "$0")" && pwd)"
mkdir -p "$VERIF_DIR/.work"
BIN="$("$VERIF_DIR/build.sh" | tail -1)"
"$BIN/jdmc" selftest

#!/usr/bin/env python3
"""Assembles /verif/seeded/RESULTS.md from the tables printed by several selftest_mutants.sh runs
(files given in chronological order: a later row for the same (change, check) replaces an earlier one).
Rows for changes that are no longer in /verif/seeded are dropped."""
import os, subprocess, sys, time
rows = {}
for f in sys.argv[1:]:
    for line in open(f, errors='replace'):
        if not line.startswith('| ') or line.startswith('| seeded change') or line.startswith('|---'):
            continue
        cells = [c.strip() for c in line.strip().strip('|').split('|')]
        if len(cells) < 3:
            continue
        rows[(cells[0], cells[1])] = line.rstrip('\n')
have = set(os.listdir('/verif/seeded'))
out = [v for (k, v) in sorted(rows.items()) if k[0] in have]
missing = sorted(d for d in have if os.path.isdir('/verif/seeded/' + d) and os.path.exists(f'/verif/seeded/{d}/patch.diff') and not any(k[0] == d for k in rows))
head = subprocess.check_output(['git', '-C', '/repo', 'rev-parse', '--short', 'HEAD']).decode().strip()
with open('/verif/seeded/RESULTS.md', 'w') as o:
    o.write('# Seeded changes versus the quick checks\n\n')
    o.write(f'Assembled by merge_results.py on {time.strftime("%Y-%m-%dT%H:%MZ", time.gmtime())} from the tables of selftest_mutants.sh runs against /repo {head} '
            '(a change is tested against the quick check of its property and the checks named in its also_check; '
            'a row "MISSED" for one check is fine when another check of the same change says "detected").\n\n')
    o.write('| seeded change | check | result | first counterexample (truncated) |\n|---|---|---|---|\n')
    o.write('\n'.join(out) + '\n')
det = {k[0] for k, v in rows.items() if '| detected |' in v and k[0] in have}
alln = {k[0] for k in rows if k[0] in have}
print('changes with rows:', len(alln), 'detected by at least one check:', len(det), 'not detected:', sorted(alln - det), 'without rows:', missing)

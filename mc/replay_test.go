package main

// A plain unit test that replays one recorded case without the explorer:
//
//	cd /verif/mc && JDMC_REPLAY_FILE=/verif/replays/C03/<file>.json go test -run TestReplay .
//
// It fails if the case still violates its property on the tree the test binary was built from.

import (
	"encoding/json"
	"os"
	"testing"

	_ "verif/mc/checks"
	"verif/mc/engine"
)

func TestReplay(t *testing.T) {
	path := os.Getenv("JDMC_REPLAY_FILE")
	if path == "" {
		t.Skip("set JDMC_REPLAY_FILE to a replay file written by a check")
	}
	b, err := os.ReadFile(path)
	if err != nil {
		t.Fatal(err)
	}
	var rf engine.ReplayFile
	if err := json.Unmarshal(b, &rf); err != nil {
		t.Fatal(err)
	}
	id := rf.Property
	if rf.Check != "" {
		id = rf.Check
	}
	ck := engine.Get(id)
	if ck == nil {
		t.Skipf("check %s is not part of this build (map-order cases need -tags verifmaporder and the overlay)", id)
	}
	res := ck.Run(&rf.Case)
	if res.Violation != "" {
		t.Fatalf("property %s violated by %+v: %s", rf.Property, rf.Case, res.Violation)
	}
}

// jdmc is the bounded-exhaustive explorer for josephburnett/jd (see /verif/DESIGN.md).
package main

import (
	"encoding/json"
	"flag"
	"fmt"
	"os"
	"path/filepath"
	"sort"
	"strconv"
	"time"

	"verif/mc/checks"
	"verif/mc/engine"
	"verif/mc/selftest"
)

func usage() {
	fmt.Fprintln(os.Stderr, "usage: jdmc check <Cxx> [-tier quick|thorough] | replay <file> | selftest | list | worker ...")
	os.Exit(64)
}

func verifDir() string {
	if d := os.Getenv("VERIF_DIR"); d != "" {
		return d
	}
	return "/verif"
}

func main() {
	if len(os.Args) < 2 {
		usage()
	}
	switch os.Args[1] {
	case "list":
		for _, id := range engine.IDs() {
			fmt.Println(id)
		}
	case "ops":
		// jdmc ops <kind> <a> <b>: every observable output for one world, from this fresh process
		outs, err := checks.OpsOutputs(os.Args[2], os.Args[3], os.Args[4])
		if err != nil {
			os.Exit(4)
		}
		b, _ := json.Marshal(outs)
		os.Stdout.Write(b)
	case "size":
		// jdmc size Cxx [tier]: cases per leg, estimated from shard 0 of 16
		ck := engine.Get(os.Args[2])
		tier := "thorough"
		if len(os.Args) > 3 {
			tier = os.Args[3]
		}
		counts := engine.CountCases(ck, tier, 0, 16)
		var total uint64
		for _, leg := range sortedKeys(counts) {
			fmt.Printf("%12d  %s\n", counts[leg]*16, leg)
			total += counts[leg] * 16
		}
		fmt.Printf("%12d  TOTAL (shard 0 x 16)\n", total)
	case "selftest":
		if err := selftest.Run(); err != nil {
			fmt.Fprintln(os.Stderr, "selftest FAILED:", err)
			os.Exit(3)
		}
		fmt.Println("selftest ok")
	case "check":
		fs := flag.NewFlagSet("check", flag.ExitOnError)
		tier := fs.String("tier", "quick", "quick|thorough")
		workers := fs.Int("workers", 16, "worker processes")
		if len(os.Args) < 3 {
			usage()
		}
		id := os.Args[2]
		fs.Parse(os.Args[3:])
		if t := os.Getenv("VERIF_TIER"); t == "quick" || t == "thorough" {
			if !isFlagSet(fs, "tier") {
				*tier = t
			}
		}
		ck := engine.Get(id)
		if ck == nil {
			fmt.Fprintln(os.Stderr, "unknown check", id)
			os.Exit(64)
		}
		seed := int64(0)
		if s := os.Getenv("VERIF_SEED"); s != "" {
			seed, _ = strconv.ParseInt(s, 10, 64)
		}
		if err := selftest.Run(); err != nil {
			fmt.Fprintln(os.Stderr, "ENGINE-ERROR: reference-model selftest failed:", err)
			os.Exit(3)
		}
		self, _ := os.Executable()
		os.Exit(engine.Coordinate(self, ck, *tier, seed, verifDir(), *workers))
	case "worker":
		fs := flag.NewFlagSet("worker", flag.ExitOnError)
		id := fs.String("check", "", "")
		tier := fs.String("tier", "quick", "")
		shard := fs.Int("shard", 0, "")
		n := fs.Int("n", 1, "")
		seed := fs.Int64("seed", 0, "")
		deadline := fs.Int64("deadline", 0, "")
		out := fs.String("out", "", "")
		trace := fs.String("trace", "", "")
		fs.Parse(os.Args[2:])
		ck := engine.Get(*id)
		if ck == nil {
			os.Exit(64)
		}
		dl := time.Now().Add(24 * time.Hour)
		if *deadline > 0 {
			dl = time.Unix(*deadline, 0)
		}
		findings, ferr := engine.LoadFindings(filepath.Join(verifDir(), "known_findings.json"))
		if ferr != nil {
			fmt.Fprintln(os.Stderr, "known_findings.json:", ferr)
			os.Exit(3)
		}
		if os.Getenv("VERIF_STOP_AT") != "" {
			engine.StopSentinel = filepath.Join(filepath.Dir(*out), "stop")
		}
		res := engine.RunWorker(ck, *tier, *shard, *n, *seed, dl, *trace, findings)
		b, _ := json.Marshal(res)
		if err := os.WriteFile(*out, b, 0644); err != nil {
			fmt.Fprintln(os.Stderr, err)
			os.Exit(3)
		}
	case "replay":
		if len(os.Args) < 3 {
			usage()
		}
		b, err := os.ReadFile(os.Args[2])
		if err != nil {
			fmt.Fprintln(os.Stderr, err)
			os.Exit(3)
		}
		var rf engine.ReplayFile
		if err := json.Unmarshal(b, &rf); err != nil {
			fmt.Fprintln(os.Stderr, err)
			os.Exit(3)
		}
		id := rf.Property
		if rf.Check != "" {
			id = rf.Check
		}
		ck := engine.Get(id)
		if ck == nil {
			fmt.Fprintf(os.Stderr, "check %s is not part of this build of jdmc (replay files of the map-order leg need .work/bin/jdmc-ord)\n", id)
			os.Exit(3)
		}
		res := ck.Run(&rf.Case)
		cj, _ := json.Marshal(rf.Case)
		fmt.Printf("case: %s\nbucket: %s\n", cj, res.Bucket)
		if res.Violation != "" {
			abs, _ := filepath.Abs(os.Args[2])
			fmt.Printf("VIOLATION property=%s replay=%s\n  why: %s\n", rf.Property, abs, res.Violation)
			os.Exit(1)
		}
		fmt.Println("no violation on this case")
	default:
		usage()
	}
}

func isFlagSet(fs *flag.FlagSet, name string) bool {
	set := false
	fs.Visit(func(f *flag.Flag) {
		if f.Name == name {
			set = true
		}
	})
	return set
}

func sortedKeys(m map[string]uint64) []string {
	var ks []string
	for k := range m {
		ks = append(ks, k)
	}
	sort.Strings(ks)
	return ks
}

// Package gen builds the finite universes the explorer enumerates completely.
package gen

import (
	"sort"

	"verif/mc/ref"
)

type V = ref.V

// Docs returns every JSON document with at most maxNodes nodes and nesting depth at most
// maxDepth over the given scalars and object keys, simplest first, de-duplicated.
func Docs(maxNodes, maxDepth int, scalars []V, keys []string) []V {
	memo := map[[2]int][]V{}
	var exact func(n, depth int) []V
	// seqs returns all sequences of k documents whose node counts sum to total.
	var seqs func(k, total, depth int) [][]V
	exact = func(n, depth int) []V {
		key := [2]int{n, depth}
		if r, ok := memo[key]; ok {
			return r
		}
		var out []V
		if n == 1 {
			out = append(out, scalars...)
			if depth >= 1 {
				out = append(out, []interface{}{}, map[string]interface{}{})
			}
		} else if depth >= 1 {
			for k := 1; k <= n-1; k++ {
				for _, s := range seqs(k, n-1, depth-1) {
					out = append(out, append([]interface{}{}, s...))
				}
			}
			for k := 1; k <= len(keys) && k <= n-1; k++ {
				for _, ks := range subsets(keys, k) {
					for _, s := range seqs(k, n-1, depth-1) {
						m := map[string]interface{}{}
						for i, kk := range ks {
							m[kk] = s[i]
						}
						out = append(out, m)
					}
				}
			}
		}
		memo[key] = out
		return out
	}
	seqs = func(k, total, depth int) [][]V {
		if k == 0 {
			if total == 0 {
				return [][]V{{}}
			}
			return nil
		}
		var out [][]V
		for first := 1; first <= total-(k-1); first++ {
			heads := exact(first, depth)
			if len(heads) == 0 {
				continue
			}
			tails := seqs(k-1, total-first, depth)
			for _, h := range heads {
				for _, t := range tails {
					out = append(out, append([]V{h}, t...))
				}
			}
		}
		return out
	}
	var all []V
	seen := map[string]bool{}
	for n := 1; n <= maxNodes; n++ {
		for _, d := range exact(n, maxDepth) {
			c := ref.JSON(d)
			if !seen[c] {
				seen[c] = true
				all = append(all, d)
			}
		}
	}
	return all
}

func subsets(keys []string, k int) [][]string {
	var out [][]string
	var rec func(start int, cur []string)
	rec = func(start int, cur []string) {
		if len(cur) == k {
			out = append(out, append([]string{}, cur...))
			return
		}
		for i := start; i < len(keys); i++ {
			rec(i+1, append(cur, keys[i]))
		}
	}
	rec(0, nil)
	return out
}

// Arrays returns all arrays of length 0..maxLen over the element alphabet, shortest first.
func Arrays(maxLen int, elems []V) []V {
	var out []V
	level := [][]interface{}{{}}
	out = append(out, []interface{}{})
	for l := 1; l <= maxLen; l++ {
		var next [][]interface{}
		for _, p := range level {
			for _, e := range elems {
				a := make([]interface{}, 0, l)
				a = append(a, p...)
				a = append(a, e)
				next = append(next, a)
			}
		}
		for _, a := range next {
			out = append(out, a)
		}
		level = next
	}
	return out
}

// Placement embeds a value somewhere in a larger document.
type Placement struct {
	Name string
	Wrap func(V) V
}

var Placements = []Placement{
	{"root", func(v V) V { return v }},
	{"key", func(v V) V { return map[string]interface{}{"k": v} }},
	{"in-array", func(v V) V { return []interface{}{0.0, v, 0.0} }},
	{"deep", func(v V) V {
		return map[string]interface{}{"k": []interface{}{map[string]interface{}{"j": v}}}
	}},
}

// Permutations returns all permutations of xs (len <= 5 expected).
func Permutations(xs []interface{}) [][]interface{} {
	if len(xs) <= 1 {
		return [][]interface{}{append([]interface{}{}, xs...)}
	}
	var out [][]interface{}
	for i := range xs {
		rest := make([]interface{}, 0, len(xs)-1)
		rest = append(rest, xs[:i]...)
		rest = append(rest, xs[i+1:]...)
		for _, p := range Permutations(rest) {
			out = append(out, append([]interface{}{xs[i]}, p...))
		}
	}
	return out
}

// Dedup removes duplicates by harness JSON text, keeping first occurrences.
func Dedup(vs []V) []V {
	seen := map[string]bool{}
	var out []V
	for _, v := range vs {
		c := ref.JSON(v)
		if ref.IsVoid(v) {
			c = "<void>"
		}
		if !seen[c] {
			seen[c] = true
			out = append(out, v)
		}
	}
	return out
}

// Edits returns every document one structural edit away from v: for each array at any depth
// insert each alphabet element at each position, delete each element, replace each element,
// swap neighbours; for each object remove a key, add a key, change a value; replace scalars.
func Edits(v V, alpha []V, keys []string) []V {
	var out []V
	var rec func(cur V, rebuild func(V) V)
	rec = func(cur V, rebuild func(V) V) {
		switch c := cur.(type) {
		case []interface{}:
			for i := 0; i <= len(c); i++ {
				for _, e := range alpha {
					n := make([]interface{}, 0, len(c)+1)
					n = append(n, c[:i]...)
					n = append(n, e)
					n = append(n, c[i:]...)
					out = append(out, rebuild(n))
				}
			}
			for i := range c {
				n := make([]interface{}, 0, len(c))
				n = append(n, c[:i]...)
				n = append(n, c[i+1:]...)
				out = append(out, rebuild(n))
			}
			for i := 0; i+1 < len(c); i++ {
				n := append([]interface{}{}, c...)
				n[i], n[i+1] = n[i+1], n[i]
				out = append(out, rebuild(n))
			}
			for i := range c {
				i := i
				rec(c[i], func(x V) V {
					n := append([]interface{}{}, c...)
					n[i] = x
					return rebuild(n)
				})
			}
		case map[string]interface{}:
			for _, k := range ref.SortedKeys(c) {
				n := map[string]interface{}{}
				for kk, vv := range c {
					if kk != k {
						n[kk] = vv
					}
				}
				out = append(out, rebuild(n))
			}
			for _, k := range keys {
				if _, ok := c[k]; ok {
					continue
				}
				for _, e := range alpha {
					n := map[string]interface{}{}
					for kk, vv := range c {
						n[kk] = vv
					}
					n[k] = e
					out = append(out, rebuild(n))
				}
			}
			for _, k := range ref.SortedKeys(c) {
				k := k
				rec(c[k], func(x V) V {
					n := map[string]interface{}{}
					for kk, vv := range c {
						n[kk] = vv
					}
					n[k] = x
					return rebuild(n)
				})
			}
		}
		// replace the node itself by each alphabet value
		for _, e := range alpha {
			if ref.JSON(e) != ref.JSON(cur) {
				out = append(out, rebuild(e))
			}
		}
	}
	rec(v, func(x V) V { return x })
	return Dedup(out)
}

// EditGraph does a breadth-first search of depth k from the seeds over single edits and
// returns the states in discovery order (seeds first).
func EditGraph(seeds []V, depth int, alpha []V, keys []string, cap int) []V {
	seen := map[string]bool{}
	var states []V
	frontier := []V{}
	for _, s := range seeds {
		c := ref.JSON(s)
		if !seen[c] {
			seen[c] = true
			states = append(states, s)
			frontier = append(frontier, s)
		}
	}
	for d := 0; d < depth; d++ {
		var next []V
		for _, s := range frontier {
			for _, e := range Edits(s, alpha, keys) {
				c := ref.JSON(e)
				if seen[c] {
					continue
				}
				if cap > 0 && len(states) >= cap {
					return states
				}
				seen[c] = true
				states = append(states, e)
				next = append(next, e)
			}
		}
		frontier = next
	}
	return states
}

// SortStrings is a tiny helper.
func SortStrings(s []string) []string { sort.Strings(s); return s }

// maporder rewrites every `for k[, v] := range m` over a map in a package directory so that
// the iteration order is chosen by a hook (verifMapOrder). It prints an overlay JSON for
// `go build -overlay`; the repository is not touched.
//
//	usage: maporder <package dir> <output dir>
package main

import (
	"bytes"
	"encoding/json"
	"fmt"
	"go/ast"
	"go/format"
	"go/importer"
	"go/parser"
	"go/token"
	"go/types"
	"os"
	"path/filepath"
	"sort"
	"strings"
)

func main() {
	if len(os.Args) != 3 {
		fmt.Fprintln(os.Stderr, "usage: maporder <package dir> <output dir>")
		os.Exit(2)
	}
	dir, out := os.Args[1], os.Args[2]
	fset := token.NewFileSet()
	pkgs, err := parser.ParseDir(fset, dir, func(fi os.FileInfo) bool { return !strings.HasSuffix(fi.Name(), "_test.go") }, parser.ParseComments)
	if err != nil {
		fmt.Fprintln(os.Stderr, err)
		os.Exit(1)
	}
	var pkg *ast.Package
	for name, p := range pkgs {
		if name == "jd" {
			pkg = p
		}
	}
	if pkg == nil {
		fmt.Fprintln(os.Stderr, "package jd not found in", dir)
		os.Exit(1)
	}
	var files []*ast.File
	var names []string
	for n := range pkg.Files {
		names = append(names, n)
	}
	sort.Strings(names)
	for _, n := range names {
		files = append(files, pkg.Files[n])
	}
	os.Chdir(dir)
	conf := types.Config{Importer: importer.ForCompiler(fset, "source", nil), Error: func(err error) {}}
	info := &types.Info{Types: map[ast.Expr]types.TypeAndValue{}}
	if _, err := conf.Check("jd", fset, files, info); err != nil {
		fmt.Fprintln(os.Stderr, "type check:", err)
	}
	overlay := map[string]string{}
	sites := 0
	os.MkdirAll(out, 0755)
	for i, f := range files {
		changed := false
		ast.Inspect(f, func(n ast.Node) bool {
			rs, ok := n.(*ast.RangeStmt)
			if !ok || rs.Key == nil || rs.Tok != token.DEFINE {
				return true
			}
			tv, ok := info.Types[rs.X]
			if !ok {
				return true
			}
			if _, isMap := tv.Type.Underlying().(*types.Map); !isMap {
				return true
			}
			sites++
			pos := fset.Position(rs.Pos())
			site := fmt.Sprintf("%s:%d", filepath.Base(pos.Filename), pos.Line)
			// for k, v := range m {B}  ==>  for _, k := range verifMapOrder("site", m) { v := m[k]; B }
			mexpr := rs.X
			key := rs.Key
			if id, ok := key.(*ast.Ident); ok && id.Name == "_" {
				key = ast.NewIdent("verifKey")
			}
			if rs.Value != nil {
				if id, ok := rs.Value.(*ast.Ident); !ok || id.Name != "_" {
					assign := &ast.AssignStmt{Lhs: []ast.Expr{rs.Value}, Tok: token.DEFINE, Rhs: []ast.Expr{&ast.IndexExpr{X: mexpr, Index: key}}}
					use := &ast.AssignStmt{Lhs: []ast.Expr{ast.NewIdent("_")}, Tok: token.ASSIGN, Rhs: []ast.Expr{rs.Value}}
					rs.Body.List = append([]ast.Stmt{assign, use}, rs.Body.List...)
				}
			}
			rs.X = &ast.CallExpr{Fun: ast.NewIdent("verifMapOrder"), Args: []ast.Expr{&ast.BasicLit{Kind: token.STRING, Value: fmt.Sprintf("%q", site)}, mexpr}}
			rs.Value = key
			rs.Key = ast.NewIdent("_")
			changed = true
			return true
		})
		if !changed {
			continue
		}
		var buf bytes.Buffer
		if err := format.Node(&buf, fset, f); err != nil {
			fmt.Fprintln(os.Stderr, "format:", err)
			os.Exit(1)
		}
		dst := filepath.Join(out, filepath.Base(names[i]))
		os.WriteFile(dst, buf.Bytes(), 0644)
		abs, _ := filepath.Abs(names[i])
		overlay[abs] = dst
	}
	hook := `package jd

import "sort"

// VerifMapChoice, when set, decides the order in which a map is ranged over at a site:
// it receives the site and the sorted keys (as strings) and returns a permutation of 0..n-1.
var VerifMapChoice func(site string, n int) []int

func verifMapOrder[M ~map[K]V, K comparable, V any](site string, m M) []K {
	keys := make([]K, 0, len(m))
	for k := range m {
		keys = append(keys, k)
	}
	sort.Slice(keys, func(i, j int) bool { return verifLess(keys[i], keys[j]) })
	if VerifMapChoice == nil || len(keys) < 2 {
		return keys
	}
	perm := VerifMapChoice(site, len(keys))
	if len(perm) != len(keys) {
		return keys
	}
	out := make([]K, len(keys))
	for i, p := range perm {
		out[i] = keys[p]
	}
	return out
}

func verifLess(a, b interface{}) bool {
	switch x := a.(type) {
	case string:
		return x < b.(string)
	case [8]byte:
		y := b.([8]byte)
		for i := range x {
			if x[i] != y[i] {
				return x[i] < y[i]
			}
		}
		return false
	}
	return false
}
`
	hookPath := filepath.Join(out, "zz_verif_maporder.go")
	os.WriteFile(hookPath, []byte(hook), 0644)
	absDir, _ := filepath.Abs(".")
	overlay[filepath.Join(absDir, "zz_verif_maporder.go")] = hookPath
	b, _ := json.MarshalIndent(map[string]interface{}{"Replace": overlay}, "", " ")
	os.WriteFile(filepath.Join(out, "overlay.json"), b, 0644)
	fmt.Printf("maporder: %d map range sites rewritten in %d files\n", sites, len(overlay)-1)
}

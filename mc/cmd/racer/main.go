// Command racer is the free-running pass of the C15 / C17 checks: the operations the properties call
// read-only are run from several goroutines at once, on unrelated values and on shared values, in a
// binary built with -race. The cooperative explorer cannot see unsynchronised package-level state
// (every one of its executions is sequential); the race detector can, and output that differs from the
// sequential run is reported as well. Exit status 0: nothing found; 1: outputs differ; 66: the race
// detector reported a data race (GORACE exitcode).
package main

import (
	"fmt"
	"os"
	"sync"

	v1 "github.com/josephburnett/jd/lib"
	jd "github.com/josephburnett/jd/v2"
)

type world struct{ a, b string }

func worlds() []world {
	seq := func(from, n int) string {
		s := "["
		for i := 0; i < n; i++ {
			if i > 0 {
				s += ","
			}
			s += fmt.Sprintf(`{"id":%d,"v":[%d,%d]}`, from+i, i, i+1)
		}
		return s + "]"
	}
	return []world{
		{`{"a":1,"b":[1,2,3],"c":{"d":"x"}}`, `{"a":2,"b":[1,3,2,4],"c":{"d":"y","e":null}}`},
		{`[1,2,2,3,"a",{"k":[1,2]}]`, `[3,2,1,"a",{"k":[2,1]},2]`},
		{seq(0, 40), seq(5, 40)},
		{`["ab","ba",[1,2],[2,1]]`, `["ba","ab",[2,1],[1,2]]`},
		{`{"x":[{"id":1,"t":"a"},{"id":2,"t":"b"}]}`, `{"x":[{"id":2,"t":"b"},{"id":1,"t":"c"}]}`},
		{`"café"`, `"café"`},
	}
}

var optSets = map[string][]jd.Option{"none": nil, "SET": {jd.SET}, "MULTISET": {jd.MULTISET}, "MERGE": {jd.MERGE}, "SETKEYS": {jd.SetKeys("id")}}
var optNames = []string{"none", "SET", "MULTISET", "MERGE", "SETKEYS"}

func must(n jd.JsonNode, err error) jd.JsonNode {
	if err != nil {
		panic(err)
	}
	return n
}

// v2 outputs of every read-only operation (and Patch on private copies) for one world under one option set.
func runV2(w world, on string, a, b jd.JsonNode) string {
	o := optSets[on]
	d := a.Diff(b, o...)
	out := fmt.Sprintf("eq=%v\n%s\n%s\n", a.Equals(b, o...), d.Render(), d.Render(jd.COLOR))
	p, _ := d.RenderPatch()
	m, _ := d.RenderMerge()
	out += p + "\n" + m + "\n" + a.Json() + b.Json() + a.Yaml() + b.Yaml()
	if r, err := must(jd.ReadJsonString(w.a)).Patch(d); err == nil {
		out += r.Json()
	} else {
		out += "patch error"
	}
	return out
}

func runV1(w world, set bool) string {
	a, _ := v1.ReadJsonString(w.a)
	b, _ := v1.ReadJsonString(w.b)
	var meta []v1.Metadata
	if set {
		meta = []v1.Metadata{v1.SET}
	}
	d := a.Diff(b, meta...)
	out := fmt.Sprintf("eq=%v\n%s\n", a.Equals(b, meta...), d.Render())
	if r, err := a.Patch(d); err == nil {
		out += r.Json()
	} else {
		out += "patch error"
	}
	return out
}

func main() {
	only := ""
	if len(os.Args) > 1 {
		only = os.Args[1] // "v1" or "v2"
	}
	doV1, doV2 := only != "v2", only != "v1"
	ws := worlds()
	// sequential reference
	want := map[string]string{}
	for i, w := range ws {
		for _, on := range optNames {
			want[fmt.Sprintf("v2/%d/%s", i, on)] = runV2(w, on, must(jd.ReadJsonString(w.a)), must(jd.ReadJsonString(w.b)))
		}
		want[fmt.Sprintf("v1/%d/list", i)] = runV1(w, false)
		want[fmt.Sprintf("v1/%d/set", i)] = runV1(w, true)
	}
	var mu sync.Mutex
	bad := 0
	report := func(key, how, got string) {
		mu.Lock()
		defer mu.Unlock()
		if bad < 5 {
			fmt.Printf("MISMATCH %s (%s): concurrent output differs from the sequential one\n--- sequential\n%s\n--- concurrent\n%s\n", key, how, want[key], got)
		}
		bad++
	}
	for round := 0; round < 30; round++ {
		var wg sync.WaitGroup
		// (1) unrelated values: every goroutine reads its own documents
		for i, w := range ws {
			for _, on := range optNames {
				if !doV2 {
					break
				}
				wg.Add(1)
				go func(i int, w world, on string) {
					defer wg.Done()
					key := fmt.Sprintf("v2/%d/%s", i, on)
					if got := runV2(w, on, must(jd.ReadJsonString(w.a)), must(jd.ReadJsonString(w.b))); got != want[key] {
						report(key, "unrelated values", got)
					}
				}(i, w, on)
			}
			for _, set := range []bool{false, true} {
				if !doV1 {
					break
				}
				wg.Add(1)
				go func(i int, w world, set bool) {
					defer wg.Done()
					key := fmt.Sprintf("v1/%d/list", i)
					if set {
						key = fmt.Sprintf("v1/%d/set", i)
					}
					if got := runV1(w, set); got != want[key] {
						report(key, "unrelated values", got)
					}
				}(i, w, set)
			}
		}
		wg.Wait()
		// (2) shared values: the read-only operations of the properties, from four goroutines on the same a, b
		for i, w := range ws {
			a, b := must(jd.ReadJsonString(w.a)), must(jd.ReadJsonString(w.b))
			for g := 0; g < 4 && doV2; g++ {
				for _, on := range optNames {
					wg.Add(1)
					go func(i int, w world, on string) {
						defer wg.Done()
						key := fmt.Sprintf("v2/%d/%s", i, on)
						if got := runV2(w, on, a, b); got != want[key] {
							report(key, "shared values", got)
						}
					}(i, w, on)
				}
			}
		}
		wg.Wait()
	}
	fmt.Printf("racer: %d worlds x %d option sets x 30 rounds, mismatches=%d\n", len(ws), len(optNames), bad)
	if bad > 0 {
		os.Exit(1)
	}
}

// Package engine is the explorer: deterministic complete enumeration of finite case spaces,
// hash-sharded over worker processes, every case executed on the real code and compared with
// a reference model, with evidence, replay files and known-finding matching.
package engine

import (
	"crypto/sha1"
	"encoding/json"
	"fmt"
	"hash/fnv"
	"os"
	"os/exec"
	"path/filepath"
	"regexp"
	"sort"
	"strconv"
	"strings"
	"sync"
	"sync/atomic"
	"time"
)

// Case is one concrete execution: everything needed to re-run it is in the fields.
type Case struct {
	Kind string `json:"kind"`          // which run body and configuration (e.g. "pair:SET")
	Leg  string `json:"leg,omitempty"` // which enumeration produced it (reporting only)
	A    string `json:"a"`
	B    string `json:"b,omitempty"`
	C    string `json:"c,omitempty"`
	X    string `json:"x,omitempty"` // extra: hunk mask, history, flag vector ...
}

func hs(s string) uint64 {
	h := fnv.New64a()
	h.Write([]byte(s))
	return h.Sum64()
}

func mix(h, x uint64) uint64 {
	h ^= x + 0x9e3779b97f4a7c15 + (h << 6) + (h >> 2)
	h *= 0xff51afd7ed558ccd
	h ^= h >> 33
	return h
}

// Hash is the identity of a case (Leg is not part of it).
func (c *Case) Hash() uint64 {
	h := hs(c.Kind)
	h = mix(h, hs(c.A))
	h = mix(h, hs(c.B))
	h = mix(h, hs(c.C))
	h = mix(h, hs(c.X))
	return h
}

// Result is what one execution reports.
type Result struct {
	Bucket      string // outcome class for the histogram
	Nontrivial  bool
	Violation   string // non-empty: the property failed on this case
	Transitions int    // operations executed on the implementation
	Traces      int    // model predictions compared with the implementation
	Note        string // free text for samples
	// Sig, if set, is the stable class of the violation; replays are compared by Sig instead of
	// by the full message (which may quote outputs that legitimately vary, e.g. when the
	// violation is a non-deterministic output).
	Sig string
}

// Check is one property's explorer.
type Check struct {
	ID       string
	Property string // property id reported for violations (default: ID)
	// Companion names a check that only exists in the map-order-controlled build of jdmc
	// (JDMC_ORD_BIN); its shards are run after the main ones and merged into this evidence.
	Companion string
	// Unstable marks checks whose violations may be genuinely non-deterministic (C15): a
	// violation is confirmed if one of several replays reproduces its class; one that never
	// reproduces is recorded as unconfirmed and raises no alarm.
	Unstable bool
	Rule     string // how cases are enumerated / what makes one non-trivial
	Bounds   func(tier string) map[string]interface{}
	Enum     func(tier string, e *Emitter)
	Run      func(c *Case) Result
	Required func(tier string) []string // histogram buckets that must be non-empty
	Assume   []string
	Budget   func(tier string) time.Duration
}

var registry = map[string]*Check{}

func Register(c *Check) { registry[c.ID] = c }
func Get(id string) *Check { return registry[id] }
func IDs() []string {
	var ids []string
	for id := range registry {
		ids = append(ids, id)
	}
	sort.Strings(ids)
	return ids
}

// Emitter hands cases to the worker that owns them.
type Emitter struct {
	shard, n  uint64
	do        func(c *Case)
	stop      *atomic.Bool
	Generated uint64
}

// Stopped tells enumerators to stop early (deadline hit).
func (e *Emitter) Stopped() bool { return e.stop != nil && e.stop.Load() }

// Emit offers one case.
func (e *Emitter) Emit(c Case) {
	e.Generated++
	if e.n > 1 && c.Hash()%e.n != e.shard {
		return
	}
	e.do(&c)
}

// Mine reports whether the case with this precomputed identity hash belongs to this worker;
// hot enumerators use it to avoid building cases they do not own. The hash must be the same
// as Case.Hash() of the case that is then passed to Do.
func (e *Emitter) Mine(h uint64) bool {
	e.Generated++
	return e.n <= 1 || h%e.n == e.shard
}
func (e *Emitter) Do(c Case) { e.do(&c) }

// HashParts computes Case.Hash from precomputed string hashes.
func HashParts(kind, a, b, c, x uint64) uint64 {
	h := kind
	h = mix(h, a)
	h = mix(h, b)
	h = mix(h, c)
	h = mix(h, x)
	return h
}
func HS(s string) uint64 { return hs(s) }

// WorkerOut is what a worker process reports.
type WorkerOut struct {
	Shard       int                 `json:"shard"`
	Generated   uint64              `json:"generated"`
	Evaluations uint64              `json:"evaluations"`
	Nontrivial  []uint64            `json:"-"`
	NontrivialN uint64              `json:"nontrivial_distinct"`
	DistinctN   uint64              `json:"distinct"`
	Transitions uint64              `json:"transitions"`
	Traces      uint64              `json:"traces"`
	Hist        map[string]uint64   `json:"hist"`
	LegHist     map[string]uint64   `json:"leg_hist"`
	Samples     []Sample            `json:"samples"`
	Violations  []Violation         `json:"violations"`
	ViolationN  uint64              `json:"violation_n"`
	Complete    bool                `json:"complete"`
	WallS       float64             `json:"wall_s"`
	Known       map[string]uint64   `json:"known,omitempty"` // finding id -> violating cases matching it
}

type Sample struct {
	Case   Case   `json:"case"`
	Bucket string `json:"bucket"`
	Note   string `json:"note,omitempty"`
}

type Violation struct {
	Case Case   `json:"case"`
	Msg  string `json:"msg"`
	Sig  string `json:"sig,omitempty"`
}

const maxViolationsPerWorker = 400

// RunWorker executes one shard in this process.
// StopSentinel, when non-empty and VERIF_STOP_AT=N is set, makes the workers of one run stop
// as soon as any of them has recorded N unlisted violations (used by the seeded-change self
// test, which only needs to know whether a change is detected; such a run reports exhaustive=false).
var StopSentinel string

func stopAt() uint64 {
	n, _ := strconv.ParseUint(os.Getenv("VERIF_STOP_AT"), 10, 64)
	return n
}

func RunWorker(ck *Check, tier string, shard, n int, seed int64, deadline time.Time, tracePath string, findings []Finding) *WorkerOut {
	start := time.Now()
	stopN := stopAt()
	out := &WorkerOut{Shard: shard, Hist: map[string]uint64{}, LegHist: map[string]uint64{}, Known: map[string]uint64{}}
	var stop atomic.Bool
	var all []uint64
	var nontriv []uint64
	var traceF *os.File
	if tracePath != "" {
		traceF, _ = os.OpenFile(tracePath, os.O_CREATE|os.O_WRONLY|os.O_TRUNC, 0644)
		defer traceF.Close()
	}
	var lastProgress atomic.Int64
	lastProgress.Store(time.Now().UnixNano())
	var current atomic.Pointer[Case]
	hang := make(chan *Case, 1)
	done := make(chan struct{})
	go func() {
		t := time.NewTicker(2 * time.Second)
		defer t.Stop()
		for {
			select {
			case <-done:
				return
			case <-t.C:
				if time.Now().After(deadline) {
					stop.Store(true)
				}
				if stopN > 0 && StopSentinel != "" {
					if _, err := os.Stat(StopSentinel); err == nil {
						stop.Store(true)
					}
				}
				if c := current.Load(); c != nil && time.Since(time.Unix(0, lastProgress.Load())) > 120*time.Second {
					select {
					case hang <- c:
					default:
					}
				}
			}
		}
	}()
	legSamples := map[string]int{}
	bucketSamples := map[string]int{}
	em := &Emitter{shard: uint64(shard), n: uint64(n), stop: &stop}
	em.do = func(c *Case) {
		if stop.Load() {
			return
		}
		if traceF != nil {
			b, _ := json.Marshal(c)
			traceF.Write(append(b, '\n'))
		}
		current.Store(c)
		res := ck.Run(c)
		current.Store(nil)
		lastProgress.Store(time.Now().UnixNano())
		out.Evaluations++
		h := c.Hash()
		all = append(all, h)
		if res.Nontrivial {
			nontriv = append(nontriv, h)
		}
		out.Transitions += uint64(res.Transitions)
		out.Traces += uint64(res.Traces)
		out.Hist[res.Bucket]++
		out.LegHist[c.Leg]++
		if res.Violation != "" {
			v := Violation{Case: *c, Msg: res.Violation, Sig: res.Sig}
			known := false
			for j := range findings {
				if findings[j].Matches(ck.ID, &v) {
					out.Known[findings[j].ID]++
					known = true
					break
				}
			}
			if !known {
				out.ViolationN++
				if len(out.Violations) < maxViolationsPerWorker {
					out.Violations = append(out.Violations, v)
				}
				if stopN > 0 && out.ViolationN >= stopN && StopSentinel != "" {
					os.WriteFile(StopSentinel, []byte("stop"), 0644)
					stop.Store(true)
				}
			}
		}
		// keep a few samples per leg and per bucket; seed rotates which ones
		if (legSamples[c.Leg] < 2 || bucketSamples[res.Bucket] < 1) && len(out.Samples) < 40 {
			if (h+uint64(seed))%5 == 0 || out.Evaluations > 200 {
				legSamples[c.Leg]++
				bucketSamples[res.Bucket]++
				out.Samples = append(out.Samples, Sample{Case: *c, Bucket: res.Bucket, Note: res.Note})
			}
		}
	}
	finished := make(chan struct{})
	go func() {
		defer close(finished)
		ck.Enum(tier, em)
	}()
	select {
	case <-finished:
	case c := <-hang:
		out.ViolationN++
		out.Violations = append(out.Violations, Violation{Case: *c, Msg: "hang: case did not return within 120s"})
		out.Hist["hang"]++
	}
	close(done)
	out.Generated = em.Generated
	out.Complete = !stop.Load()
	out.NontrivialN = countDistinct(nontriv)
	out.DistinctN = countDistinct(all)
	out.WallS = time.Since(start).Seconds()
	return out
}

func countDistinct(xs []uint64) uint64 {
	if len(xs) == 0 {
		return 0
	}
	sort.Slice(xs, func(i, j int) bool { return xs[i] < xs[j] })
	n := uint64(1)
	for i := 1; i < len(xs); i++ {
		if xs[i] != xs[i-1] {
			n++
		}
	}
	return n
}

// ---------------------------------------------------------------------------------------
// Known findings
// ---------------------------------------------------------------------------------------

type Finding struct {
	Property   string `json:"property"`
	ID         string `json:"id"`
	Status     string `json:"status"` // "known" or "fixed"
	What       string `json:"what"`
	Commit     string `json:"commit,omitempty"`
	KindRegex  string `json:"kind_regex,omitempty"`  // matched against Case.Kind
	InputRegex string `json:"input_regex,omitempty"` // matched against "a=<A>\nb=<B>\nc=<C>\nx=<X>\n"
	MsgRegex   string `json:"msg_regex,omitempty"`   // matched against the violation message
	kindRe     *regexp.Regexp
	inputRe    *regexp.Regexp
	msgRe      *regexp.Regexp
}

type FindingsFile struct {
	Findings []Finding `json:"findings"`
	Fixed    []string  `json:"fixed"` // "fixed: property=<id> <commit> <what failed>" - informational, suppresses nothing
}

func LoadFindings(path string) ([]Finding, error) {
	b, err := os.ReadFile(path)
	if err != nil {
		if os.IsNotExist(err) {
			return nil, nil
		}
		return nil, err
	}
	var ff FindingsFile
	if err := json.Unmarshal(b, &ff); err != nil {
		return nil, err
	}
	comp := func(s string) (*regexp.Regexp, error) {
		if s == "" {
			return nil, nil
		}
		return regexp.Compile(s)
	}
	for i := range ff.Findings {
		f := &ff.Findings[i]
		if f.kindRe, err = comp(f.KindRegex); err != nil {
			return nil, err
		}
		if f.inputRe, err = comp(f.InputRegex); err != nil {
			return nil, err
		}
		if f.msgRe, err = comp(f.MsgRegex); err != nil {
			return nil, err
		}
	}
	return ff.Findings, nil
}

// CaseInput is the text the input_regex of a finding is matched against.
func CaseInput(c *Case) string {
	return "a=" + c.A + "\nb=" + c.B + "\nc=" + c.C + "\nx=" + c.X + "\n"
}

func (f *Finding) Matches(property string, v *Violation) bool {
	if f.Status != "known" || f.Property != property {
		return false
	}
	if f.inputRe == nil && f.msgRe == nil {
		return false // a finding must name the failing input or failure
	}
	if f.kindRe != nil && !f.kindRe.MatchString(v.Case.Kind) {
		return false
	}
	if f.inputRe != nil && !f.inputRe.MatchString(CaseInput(&v.Case)) {
		return false
	}
	if f.msgRe != nil && !f.msgRe.MatchString(v.Msg) {
		return false
	}
	return true
}

// ---------------------------------------------------------------------------------------
// Coordinator
// ---------------------------------------------------------------------------------------

type ReplayFile struct {
	Property string `json:"property"`
	Check    string `json:"check,omitempty"` // engine check id if different from the property (companion checks)
	Binary   string `json:"binary,omitempty"`
	Case     Case   `json:"case"`
	Msg      string `json:"msg"`
}

// Coordinate runs all shards as subprocesses of self, merges, writes evidence, prints
// KNOWN-FINDING / VIOLATION lines and returns the process exit code.
func Coordinate(self string, ck *Check, tier string, seed int64, verifDir string, nworkers int) int {
	start := time.Now()
	budget := 10 * time.Minute
	if ck.Budget != nil {
		budget = ck.Budget(tier)
	}
	if s := os.Getenv("VERIF_BUDGET_S"); s != "" {
		if v, err := strconv.Atoi(s); err == nil {
			budget = time.Duration(v) * time.Second
		}
	}
	deadline := start.Add(budget)
	work := filepath.Join(verifDir, ".work", "runs", fmt.Sprintf("%s-%s-%d", ck.ID, tier, os.Getpid()))
	os.MkdirAll(work, 0755)
	defer os.RemoveAll(work)

	outs := make([]*WorkerOut, nworkers)
	errs := make([]string, nworkers)
	var wg sync.WaitGroup
	for i := 0; i < nworkers; i++ {
		wg.Add(1)
		go func(i int) {
			defer wg.Done()
			outs[i], errs[i] = runShard(self, ck, tier, i, nworkers, seed, deadline, work, "")
			if outs[i] == nil {
				// The worker died (fatal runtime error, OOM kill ...): re-run in trace mode to
				// name the culprit; the last traced case is reported as a crash.
				tp := filepath.Join(work, fmt.Sprintf("trace-%d.jsonl", i))
				o2, _ := runShard(self, ck, tier, i, nworkers, seed, deadline, work, tp)
				if o2 != nil {
					outs[i] = o2 // not reproducible: treat the first death as an engine error below
					errs[i] = "worker died once, rerun completed: " + errs[i]
					return
				}
				if last := lastLine(tp); last != "" {
					var c Case
					if json.Unmarshal([]byte(last), &c) == nil {
						outs[i] = &WorkerOut{Shard: i, Hist: map[string]uint64{"crash": 1}, LegHist: map[string]uint64{},
							Violations: []Violation{{Case: c, Msg: "worker process died on this case (fatal error): " + errs[i]}}, ViolationN: 1}
						errs[i] = ""
					}
				}
			}
		}(i)
	}
	wg.Wait()

	// companion shards from the map-order-controlled build, if it could be built
	ordBin := os.Getenv("JDMC_ORD_BIN")
	mapOrderControl := false
	companionNote := ""
	var compOuts []*WorkerOut
	if ck.Companion != "" {
		if ordBin == "" {
			companionNote = "map-order-controlled build not available: order leg skipped"
		} else if _, err := os.Stat(ordBin); err != nil {
			companionNote = "map-order-controlled build failed (see build log): order leg skipped"
		} else {
			comp := &Check{ID: ck.Companion}
			compOuts = make([]*WorkerOut, nworkers)
			compErrs := make([]string, nworkers)
			var wg2 sync.WaitGroup
			for i := 0; i < nworkers; i++ {
				wg2.Add(1)
				go func(i int) {
					defer wg2.Done()
					compOuts[i], compErrs[i] = runShard(ordBin, comp, tier, i, nworkers, seed, deadline, work, "")
				}(i)
			}
			wg2.Wait()
			mapOrderControl = true
			for i, o := range compOuts {
				if o == nil {
					mapOrderControl = false
					companionNote += fmt.Sprintf("order-leg shard %d failed: %s; ", i, compErrs[i])
				}
			}
		}
	}

	merged := &WorkerOut{Hist: map[string]uint64{}, LegHist: map[string]uint64{}, Known: map[string]uint64{}, Complete: true}
	companionViolation := map[uint64]bool{}
	for _, o := range compOuts {
		if o == nil {
			continue
		}
		for i := range o.Violations {
			companionViolation[o.Violations[i].Case.Hash()] = true
		}
		outs = append(outs, o)
		errs = append(errs, "")
	}
	engineErr := ""
	for i, o := range outs {
		if o == nil {
			engineErr += fmt.Sprintf("shard %d: %s\n", i, errs[i])
			continue
		}
		if errs[i] != "" {
			engineErr += fmt.Sprintf("shard %d: %s\n", i, errs[i])
		}
		if merged.Generated != 0 && o.Generated != merged.Generated && o.Complete && i < nworkers {
			engineErr += fmt.Sprintf("shard %d walked %d enumeration units, another shard %d: the enumeration is not deterministic\n", i, o.Generated, merged.Generated)
		}
		if o.Complete && i < nworkers {
			merged.Generated = o.Generated // every worker walks the whole space
		}
		merged.Evaluations += o.Evaluations
		merged.NontrivialN += o.NontrivialN
		merged.DistinctN += o.DistinctN
		merged.Transitions += o.Transitions
		merged.Traces += o.Traces
		merged.ViolationN += o.ViolationN
		for k, v := range o.Hist {
			merged.Hist[k] += v
		}
		for k, v := range o.LegHist {
			merged.LegHist[k] += v
		}
		for k, v := range o.Known {
			merged.Known[k] += v
		}
		merged.Samples = append(merged.Samples, o.Samples...)
		merged.Violations = append(merged.Violations, o.Violations...)
		merged.Complete = merged.Complete && o.Complete
	}

	findings, ferr := LoadFindings(filepath.Join(verifDir, "known_findings.json"))
	if ferr != nil {
		engineErr += "known_findings.json: " + ferr.Error() + "\n"
	}
	knownCount := map[string]int{}
	for k, v := range merged.Known {
		knownCount[k] += int(v)
	}
	var unknown []Violation
	for i := range merged.Violations {
		v := &merged.Violations[i]
		matched := false
		for j := range findings {
			if findings[j].Matches(ck.ID, v) {
				knownCount[findings[j].ID]++
				matched = true
				break
			}
		}
		if !matched {
			unknown = append(unknown, *v)
		}
	}
	truncated := merged.ViolationN > uint64(len(merged.Violations))
	sort.Slice(unknown, func(i, j int) bool {
		a, b := unknown[i].Case, unknown[j].Case
		la, lb := len(a.A)+len(a.B)+len(a.C)+len(a.X), len(b.A)+len(b.B)+len(b.C)+len(b.X)
		if la != lb {
			return la < lb
		}
		ja, _ := json.Marshal(a)
		jb, _ := json.Marshal(b)
		return string(ja) < string(jb)
	})

	if dump := os.Getenv("VERIF_DUMP"); dump != "" {
		var sb strings.Builder
		for _, v := range unknown {
			sb.WriteString(mustJSON(v) + "\n")
		}
		os.WriteFile(dump, []byte(sb.String()), 0644)
	}
	exit := 0
	for _, f := range findings {
		if n := knownCount[f.ID]; n > 0 {
			fmt.Printf("KNOWN-FINDING: property=%s %s: %s (%d cases this run)\n", ck.ID, f.ID, f.What, n)
		}
	}
	// Confirm and report unknown violations (smallest first, at most 10 replay files).
	reported := 0
	unconfirmed := 0
	replayDir := filepath.Join(verifDir, "replays", ck.ID)
	if d := os.Getenv("VERIF_REPLAY_DIR"); d != "" {
		replayDir = filepath.Join(d, ck.ID)
	}
	for _, v := range unknown {
		if reported >= 10 {
			break
		}
		c := v.Case
		var r1, r2 Result
		isComp := companionViolation[c.Hash()] && strings.HasPrefix(c.Kind, "c15ord")
		special := strings.HasPrefix(v.Msg, "hang:") || strings.HasPrefix(v.Msg, "worker process died")
		sigOf := func(r Result) string {
			if r.Sig != "" {
				return r.Sig
			}
			return r.Violation
		}
		switch {
		case special:
			// cannot be re-executed in-process safely; report as is
		case isComp:
			r1.Violation = externalReplay(ordBin, ck.ID, ck.Companion, &v, work)
			r2.Violation = externalReplay(ordBin, ck.ID, ck.Companion, &v, work)
			if r1.Violation == "" || r1.Violation != r2.Violation {
				engineErr += fmt.Sprintf("violation did not reproduce deterministically: %s\n  first=%q\n  replay1=%q\n  replay2=%q\n", mustJSON(v.Case), v.Msg, r1.Violation, r2.Violation)
				continue
			}
		case ck.Unstable:
			want := v.Sig
			if want == "" {
				want = v.Msg
			}
			ok := false
			for try := 0; try < 6 && !ok; try++ {
				r := safeRun(ck, &c)
				ok = r.Violation != "" && sigOf(r) == want
			}
			if !ok {
				unconfirmed++
				fmt.Fprintf(os.Stderr, "note: a violating execution did not reproduce in 6 replays and is not reported: %s\n  %s\n", mustJSON(v.Case), v.Msg)
				continue
			}
		default:
			r1 = safeRun(ck, &c)
			r2 = safeRun(ck, &c)
			if r1.Violation == "" || sigOf(r1) != sigOf(r2) {
				engineErr += fmt.Sprintf("violation did not reproduce deterministically: %s\n  first=%q\n  replay1=%q\n  replay2=%q\n", mustJSON(v.Case), v.Msg, r1.Violation, r2.Violation)
				continue
			}
		}
		os.MkdirAll(replayDir, 0755)
		rf := ReplayFile{Property: ck.ID, Case: v.Case, Msg: v.Msg}
		if isComp {
			rf.Check, rf.Binary = ck.Companion, "jdmc-ord"
		}
		b, _ := json.MarshalIndent(rf, "", " ")
		name := fmt.Sprintf("%x.json", sha1.Sum(b))[:16] + ".json"
		path := filepath.Join(replayDir, name)
		os.WriteFile(path, b, 0644)
		fmt.Printf("VIOLATION property=%s replay=%s\n", ck.ID, path)
		fmt.Printf("  case: %s\n  why:  %s\n", mustJSON(v.Case), v.Msg)
		reported++
		exit = 1
	}
	if len(unknown) > reported {
		fmt.Printf("  (%d further violating cases not written out)\n", len(unknown)-reported)
	}
	_ = truncated

	// Anti-vacuity: required buckets.
	if ck.Required != nil && merged.Complete && engineErr == "" {
		for _, b := range ck.Required(tier) {
			found := false
			for k, v := range merged.Hist {
				if v > 0 && strings.Contains(k, b) {
					found = true
				}
			}
			if !found {
				engineErr += fmt.Sprintf("vacuity guard: no case fell into required outcome bucket %q\n", b)
			}
		}
	}

	// Evidence.
	samples := merged.Samples
	if len(samples) > 24 {
		step := len(samples) / 24
		var s2 []Sample
		for i := 0; i < len(samples) && len(s2) < 24; i += step {
			s2 = append(s2, samples[i])
		}
		samples = s2
	}
	bounds := map[string]interface{}{}
	if ck.Bounds != nil {
		bounds = ck.Bounds(tier)
	}
	knownList := []string{}
	for id, n := range knownCount {
		knownList = append(knownList, fmt.Sprintf("%s:%d", id, n))
	}
	sort.Strings(knownList)
	states := merged.DistinctN
	ev := map[string]interface{}{
		"property_id": ck.ID,
		"tier":        tier,
		"seed":        seed,
		"level":       "model_checking",
		"coverage": map[string]interface{}{
			"states":                        states,
			"transitions":                   merged.Transitions,
			"traces_validated_against_impl": merged.Traces,
			"samples":                       samples,
			"evaluations":                   merged.Evaluations,
			"distinct_nontrivial":           merged.NontrivialN,
			"rule":                          ck.Rule,
			"exhaustive":                    merged.Complete && engineErr == "",
			"space_size":                    merged.Generated,
			"bounds":                        bounds,
			"outcome_histogram":             merged.Hist,
			"cases_per_leg":                 merged.LegHist,
			"known_findings_seen":           knownList,
			"workers":                       nworkers,
			"engine_error":                  engineErr,
			"map_order_control":             mapOrderControl,
			"unconfirmed_violations":        unconfirmed,
			"map_order_note":                companionNote,
			"states_meaning":                "distinct initial states (concrete cases: documents, option set, diff/patch program, target, history) explored; every one is executed on the real code",
			"transitions_meaning":           "library / CLI operations executed on the implementation across all cases",
		},
		"assumptions": ck.Assume,
		"wall_s":      time.Since(start).Seconds(),
		"violations":  len(unknown),
	}
	evDir := filepath.Join(verifDir, "evidence")
	if d := os.Getenv("VERIF_EVIDENCE_DIR"); d != "" {
		evDir = d // used when a seeded change in a scratch tree is checked; never for /repo
	}
	os.MkdirAll(evDir, 0755)
	b, _ := json.MarshalIndent(ev, "", " ")
	os.WriteFile(filepath.Join(evDir, ck.ID+".json"), append(b, '\n'), 0644)

	fmt.Printf("%s %s: cases=%d distinct=%d nontrivial=%d transitions=%d traces=%d exhaustive=%v violations=%d known=%v wall=%.1fs\n",
		ck.ID, tier, merged.Evaluations, merged.DistinctN, merged.NontrivialN, merged.Transitions, merged.Traces,
		merged.Complete && engineErr == "", len(unknown), knownList, time.Since(start).Seconds())
	if os.Getenv("VERIF_VERBOSE") != "" {
		keys := make([]string, 0, len(merged.Hist))
		for k := range merged.Hist {
			keys = append(keys, k)
		}
		sort.Strings(keys)
		for _, k := range keys {
			fmt.Printf("   %-60s %d\n", k, merged.Hist[k])
		}
	}
	if engineErr != "" {
		fmt.Fprintf(os.Stderr, "ENGINE-ERROR %s: %s", ck.ID, engineErr)
		if exit == 0 {
			return 3
		}
	}
	return exit
}

func mustJSON(v interface{}) string {
	b, _ := json.Marshal(v)
	return string(b)
}

func safeRun(ck *Check, c *Case) (res Result) {
	defer func() {
		if r := recover(); r != nil {
			res = Result{Violation: fmt.Sprintf("check body panicked: %v", r)}
		}
	}()
	return ck.Run(c)
}

func lastLine(path string) string {
	b, err := os.ReadFile(path)
	if err != nil {
		return ""
	}
	lines := strings.Split(strings.TrimRight(string(b), "\n"), "\n")
	if len(lines) == 0 {
		return ""
	}
	return lines[len(lines)-1]
}

func runShard(self string, ck *Check, tier string, shard, n int, seed int64, deadline time.Time, work, trace string) (*WorkerOut, string) {
	outPath := filepath.Join(work, fmt.Sprintf("out-%d.json", shard))
	os.Remove(outPath)
	args := []string{"worker", "-check", ck.ID, "-tier", tier, "-shard", strconv.Itoa(shard), "-n", strconv.Itoa(n),
		"-seed", strconv.FormatInt(seed, 10), "-deadline", strconv.FormatInt(deadline.Unix(), 10), "-out", outPath}
	if trace != "" {
		args = append(args, "-trace", trace)
	}
	cmd := exec.Command(self, args...)
	cmd.Env = append(os.Environ(), "GOMAXPROCS=2", "GOMEMLIMIT=3GiB")
	var stderr strings.Builder
	cmd.Stderr = &limitedWriter{w: &stderr, n: 1 << 16}
	cmd.Stdout = os.Stderr
	if err := cmd.Start(); err != nil {
		return nil, err.Error()
	}
	waitCh := make(chan error, 1)
	go func() { waitCh <- cmd.Wait() }()
	hard := time.Until(deadline) + 5*time.Minute
	select {
	case err := <-waitCh:
		if err != nil {
			return nil, fmt.Sprintf("worker exit: %v; stderr tail: %s", err, tail(stderr.String(), 1500))
		}
	case <-time.After(hard):
		cmd.Process.Kill()
		<-waitCh
		return nil, "worker exceeded hard time limit"
	}
	b, err := os.ReadFile(outPath)
	if err != nil {
		return nil, err.Error()
	}
	var out WorkerOut
	if err := json.Unmarshal(b, &out); err != nil {
		return nil, err.Error()
	}
	return &out, ""
}

type limitedWriter struct {
	w *strings.Builder
	n int
}

func (l *limitedWriter) Write(p []byte) (int, error) {
	if l.w.Len() < l.n {
		l.w.Write(p)
	}
	return len(p), nil
}

func tail(s string, n int) string {
	if len(s) > n {
		return s[len(s)-n:]
	}
	return s
}

// externalReplay re-executes one case in another build of jdmc and returns its violation text.
func externalReplay(bin, property, check string, v *Violation, work string) string {
	rf := ReplayFile{Property: property, Check: check, Case: v.Case, Msg: v.Msg}
	b, _ := json.Marshal(rf)
	path := filepath.Join(work, fmt.Sprintf("ext-%x.json", sha1.Sum(b)))
	os.WriteFile(path, b, 0644)
	out, _ := exec.Command(bin, "replay", path).CombinedOutput()
	s := string(out)
	i := strings.Index(s, "  why: ")
	if i < 0 {
		return ""
	}
	return strings.TrimSpace(s[i+len("  why: "):])
}

// CountCases walks the enumeration of one shard without executing anything and returns the
// number of cases per leg (used to size the tiers).
func CountCases(ck *Check, tier string, shard, n int) map[string]uint64 {
	out := map[string]uint64{}
	em := &Emitter{shard: uint64(shard), n: uint64(n)}
	em.do = func(c *Case) { out[c.Leg]++ }
	ck.Enum(tier, em)
	return out
}

// Package selftest validates the reference models against the RFCs' own examples and against
// brute force, so that a disagreement with jd can be attributed.
package selftest

import (
	"fmt"

	"verif/mc/ref"
)

type p6902 struct {
	name, doc, patch, want string
	fails                  bool
}

// RFC 6902 Appendix A.
var rfc6902Cases = []p6902{
	{"A.1", `{"foo":"bar"}`, `[{"op":"add","path":"/baz","value":"qux"}]`, `{"baz":"qux","foo":"bar"}`, false},
	{"A.2", `{"foo":["bar","baz"]}`, `[{"op":"add","path":"/foo/1","value":"qux"}]`, `{"foo":["bar","qux","baz"]}`, false},
	{"A.3", `{"baz":"qux","foo":"bar"}`, `[{"op":"remove","path":"/baz"}]`, `{"foo":"bar"}`, false},
	{"A.4", `{"foo":["bar","qux","baz"]}`, `[{"op":"remove","path":"/foo/1"}]`, `{"foo":["bar","baz"]}`, false},
	{"A.5", `{"baz":"qux","foo":"bar"}`, `[{"op":"replace","path":"/baz","value":"boo"}]`, `{"baz":"boo","foo":"bar"}`, false},
	{"A.6", `{"foo":{"bar":"baz","waldo":"fred"},"qux":{"corge":"grault"}}`, `[{"op":"move","from":"/foo/waldo","path":"/qux/thud"}]`, `{"foo":{"bar":"baz"},"qux":{"corge":"grault","thud":"fred"}}`, false},
	{"A.7", `{"foo":["all","grass","cows","eat"]}`, `[{"op":"move","from":"/foo/1","path":"/foo/3"}]`, `{"foo":["all","cows","eat","grass"]}`, false},
	{"A.8", `{"baz":"qux","foo":["a",2,"c"]}`, `[{"op":"test","path":"/baz","value":"qux"},{"op":"test","path":"/foo/1","value":2}]`, `{"baz":"qux","foo":["a",2,"c"]}`, false},
	{"A.9", `{"baz":"qux"}`, `[{"op":"test","path":"/baz","value":"bar"}]`, ``, true},
	{"A.10", `{"foo":"bar"}`, `[{"op":"add","path":"/child","value":{"grandchild":{}}}]`, `{"foo":"bar","child":{"grandchild":{}}}`, false},
	{"A.11", `{"foo":"bar"}`, `[{"op":"add","path":"/baz","value":"qux","xyz":123}]`, `{"foo":"bar","baz":"qux"}`, false},
	{"A.12", `{"foo":"bar"}`, `[{"op":"add","path":"/baz/bat","value":"qux"}]`, ``, true},
	{"A.14", `{"/":9,"~1":10}`, `[{"op":"test","path":"/~01","value":10}]`, `{"/":9,"~1":10}`, false},
	{"A.15", `{"/":9,"~1":10}`, `[{"op":"test","path":"/~01","value":"10"}]`, ``, true},
	{"A.16", `{"foo":["bar"]}`, `[{"op":"add","path":"/foo/-","value":["abc","def"]}]`, `{"foo":["bar",["abc","def"]]}`, false},
	{"copy", `{"a":[1,2]}`, `[{"op":"copy","from":"/a/0","path":"/a/-"}]`, `{"a":[1,2,1]}`, false},
	{"leading-zero", `[1,2]`, `[{"op":"remove","path":"/01"}]`, ``, true},
	{"add-out-of-range", `[1,2]`, `[{"op":"add","path":"/3","value":1}]`, ``, true},
	{"add-at-len", `[1,2]`, `[{"op":"add","path":"/2","value":3}]`, `[1,2,3]`, false},
	{"root-replace", `[1,2]`, `[{"op":"replace","path":"","value":3}]`, `3`, false},
	{"remove-missing", `{"a":1}`, `[{"op":"remove","path":"/b"}]`, ``, true},
	{"replace-missing", `{"a":1}`, `[{"op":"replace","path":"/b","value":1}]`, ``, true},
	{"atomic", `{"a":1}`, `[{"op":"add","path":"/b","value":1},{"op":"test","path":"/a","value":2}]`, ``, true},
	{"empty-key", `{"":1}`, `[{"op":"replace","path":"/","value":2}]`, `{"":2}`, false},
}

// RFC 7386 Appendix A.
var rfc7386Cases = [][3]string{
	{`{"a":"b"}`, `{"a":"c"}`, `{"a":"c"}`},
	{`{"a":"b"}`, `{"b":"c"}`, `{"a":"b","b":"c"}`},
	{`{"a":"b"}`, `{"a":null}`, `{}`},
	{`{"a":"b","b":"c"}`, `{"a":null}`, `{"b":"c"}`},
	{`{"a":["b"]}`, `{"a":"c"}`, `{"a":"c"}`},
	{`{"a":"c"}`, `{"a":["b"]}`, `{"a":["b"]}`},
	{`{"a":{"b":"c"}}`, `{"a":{"b":"d","c":null}}`, `{"a":{"b":"d"}}`},
	{`{"a":[{"b":"c"}]}`, `{"a":[1]}`, `{"a":[1]}`},
	{`["a","b"]`, `["c","d"]`, `["c","d"]`},
	{`{"a":"b"}`, `["c"]`, `["c"]`},
	{`{"a":"foo"}`, `null`, `null`},
	{`{"a":"foo"}`, `"bar"`, `"bar"`},
	{`{"e":null}`, `{"a":1}`, `{"e":null,"a":1}`},
	{`[1,2]`, `{"a":"b","c":null}`, `{"a":"b"}`},
	{`{}`, `{"a":{"bb":{"ccc":null}}}`, `{"a":{"bb":{}}}`},
}

func bruteLCS(x, y []string) int {
	if len(x) == 0 || len(y) == 0 {
		return 0
	}
	if x[0] == y[0] {
		return 1 + bruteLCS(x[1:], y[1:])
	}
	a, b := bruteLCS(x[1:], y), bruteLCS(x, y[1:])
	if a > b {
		return a
	}
	return b
}

// Run executes all model self-tests.
func Run() error {
	for _, c := range rfc6902Cases {
		got, err := ref.Eval6902(ref.MustParse(c.doc), c.patch)
		if c.fails {
			if err == nil {
				return fmt.Errorf("rfc6902 %s: expected failure, got %s", c.name, ref.JSON(got))
			}
			continue
		}
		if err != nil {
			return fmt.Errorf("rfc6902 %s: %v", c.name, err)
		}
		if !ref.Equal(got, ref.MustParse(c.want), ref.List) {
			return fmt.Errorf("rfc6902 %s: got %s want %s", c.name, ref.JSON(got), c.want)
		}
	}
	for i, c := range rfc7386Cases {
		got := ref.MergePatch(ref.MustParse(c[0]), ref.MustParse(c[1]))
		if !ref.Equal(got, ref.MustParse(c[2]), ref.List) {
			return fmt.Errorf("rfc7386 row %d: got %s want %s", i, ref.JSON(got), c[2])
		}
	}
	// LCS against brute force on all string arrays of length <= 4 over {a,b,c}
	var all [][]string
	var rec func(cur []string)
	rec = func(cur []string) {
		all = append(all, append([]string{}, cur...))
		if len(cur) == 4 {
			return
		}
		for _, s := range []string{"a", "b", "c"} {
			rec(append(cur, s))
		}
	}
	rec(nil)
	for _, x := range all {
		for _, y := range all {
			if ref.LCSLen(x, y) != bruteLCS(x, y) {
				return fmt.Errorf("LCS(%v,%v): dp=%d brute=%d", x, y, ref.LCSLen(x, y), bruteLCS(x, y))
			}
		}
	}
	// hunk interpreter on the documented examples (README / doc/v2.md)
	type hx struct {
		doc   string
		hunks []ref.Hunk
		want  string
		rej   bool
	}
	v := ref.MustParse
	hs := []hx{
		{`{"foo":["bar","baz"]}`, []ref.Hunk{{Path: []ref.PE{ref.K("foo"), ref.I(1)}, Before: []ref.V{"bar"}, Remove: []ref.V{"baz"}, Add: []ref.V{"bam", "boom"}, After: []ref.V{ref.Void{}}}}, `{"foo":["bar","bam","boom"]}`, false},
		{`{"foo":["bar","baz"]}`, []ref.Hunk{{Path: []ref.PE{ref.K("foo"), ref.I(1)}, Before: []ref.V{"WRONG"}, Remove: []ref.V{"baz"}, Add: []ref.V{"bam"}, After: []ref.V{ref.Void{}}}}, ``, true},
		{`{"foo":["bar","baz"]}`, []ref.Hunk{{Path: []ref.PE{ref.K("foo"), ref.I(0)}, Before: []ref.V{ref.Void{}}, Remove: []ref.V{"bar"}, After: []ref.V{"baz"}}}, `{"foo":["baz"]}`, false},
		{`{"a":1}`, []ref.Hunk{{Path: []ref.PE{ref.K("a")}, Remove: []ref.V{1.0}, Add: []ref.V{2.0}}}, `{"a":2}`, false},
		{`{"a":1}`, []ref.Hunk{{Path: []ref.PE{ref.K("a")}, Remove: []ref.V{3.0}, Add: []ref.V{2.0}}}, ``, true},
		{`{"a":1}`, []ref.Hunk{{Path: []ref.PE{ref.K("b")}, Add: []ref.V{2.0}}}, `{"a":1,"b":2}`, false},
		{`[1,2,3]`, []ref.Hunk{{Path: []ref.PE{ref.SetPE()}, Remove: []ref.V{2.0}, Add: []ref.V{4.0}}}, `[1,3,4]`, false},
		{`[1,2,3]`, []ref.Hunk{{Path: []ref.PE{ref.SetPE()}, Remove: []ref.V{5.0}}}, ``, true},
		{`[1,1,2]`, []ref.Hunk{{Path: []ref.PE{ref.MsetPE()}, Remove: []ref.V{1.0, 1.0}}}, `[2]`, false},
		{`[1,2]`, []ref.Hunk{{Path: []ref.PE{ref.MsetPE()}, Remove: []ref.V{1.0, 1.0}}}, ``, true},
		{`[{"id":1,"v":5}]`, []ref.Hunk{{Path: []ref.PE{ref.SetKeysPE(map[string]ref.V{"id": 1.0}), ref.K("v")}, Remove: []ref.V{5.0}, Add: []ref.V{6.0}}}, `[{"id":1,"v":6}]`, false},
		{`[{"id":1,"v":5}]`, []ref.Hunk{{Path: []ref.PE{ref.SetKeysPE(map[string]ref.V{"id": 1.0}), ref.K("v")}, Remove: []ref.V{1.0}, Add: []ref.V{6.0}}}, ``, true},
		// several context lines per side (hand-written hunks): k-th before-line = element at i-m+k, '[' / ']' only just outside
		{`[1,2,3,4]`, []ref.Hunk{{Path: []ref.PE{ref.I(2)}, Before: []ref.V{1.0, 2.0}, Remove: []ref.V{3.0}, Add: []ref.V{9.0}, After: []ref.V{4.0, ref.Void{}}}}, `[1,2,9,4]`, false},
		{`[2,1,3,4]`, []ref.Hunk{{Path: []ref.PE{ref.I(2)}, Before: []ref.V{1.0, 2.0}, Remove: []ref.V{3.0}, Add: []ref.V{9.0}, After: []ref.V{4.0}}}, ``, true},
		{`[1]`, []ref.Hunk{{Path: []ref.PE{ref.I(1)}, Before: []ref.V{ref.Void{}, 1.0}, Add: []ref.V{5.0}, After: []ref.V{ref.Void{}}}}, `[1,5]`, false},
		{`[0,1]`, []ref.Hunk{{Path: []ref.PE{ref.I(2)}, Before: []ref.V{ref.Void{}, 1.0}, Add: []ref.V{5.0}}}, ``, true},
		{`[1,2,3]`, []ref.Hunk{{Path: []ref.PE{ref.I(0)}, Remove: []ref.V{1.0}, After: []ref.V{2.0, 3.0, ref.Void{}}}}, `[2,3]`, false},
		{`[1,2,3,4]`, []ref.Hunk{{Path: []ref.PE{ref.I(0)}, Remove: []ref.V{1.0}, After: []ref.V{2.0, 3.0, ref.Void{}}}}, ``, true},
		{`1`, []ref.Hunk{{Path: []ref.PE{}, Remove: []ref.V{1.0}, Add: []ref.V{2.0}}}, `2`, false},
		{``, []ref.Hunk{{Path: []ref.PE{}, Add: []ref.V{2.0}}}, `2`, false},
	}
	for i, h := range hs {
		t, _, rej := ref.ApplyHunks(v(h.doc), h.hunks)
		if h.rej {
			if rej == nil || rej.NoVerdict {
				return fmt.Errorf("hunk example %d: expected rejection, got %v", i, rej)
			}
			continue
		}
		if rej != nil {
			return fmt.Errorf("hunk example %d: rejected: %v", i, rej)
		}
		if !ref.CompareMixed(t, v(h.want)) {
			return fmt.Errorf("hunk example %d: got %s want %s", i, ref.JSON(t.ToV()), h.want)
		}
	}
	// the reference parsers take one JSON document and nothing after it
	for _, bad := range []string{`[]]`, `[],`, `[] []`, `[]{}`, `[] x`} {
		if _, err := ref.ParsePatch(bad); err == nil {
			return fmt.Errorf("ParsePatch accepts %q", bad)
		}
		if _, err := ref.Parse(bad); err == nil {
			return fmt.Errorf("Parse accepts %q", bad)
		}
	}
	for _, bad := range []string{`[{"op":"add","path":"a","value":1}]`, `[{"op":"add","path":"#/a","value":1}]`} {
		if _, err := ref.Eval6902(v(`{}`), bad); err == nil {
			return fmt.Errorf("Eval6902 accepts the pointer in %s", bad)
		}
	}
	for _, bad := range []string{`[{"op":"add","path":"/00","value":1}]`, `[{"op":"add","path":"/+0","value":1}]`, `[{"op":"add","path":"/-0","value":1}]`, `[{"op":"add","path":"/-1","value":1}]`} {
		if _, err := ref.Eval6902(v(`[]`), bad); err == nil {
			return fmt.Errorf("Eval6902 accepts the array index in %s", bad)
		}
	}
	// canon sanity
	if !ref.Equal(v(`[1,2,2]`), v(`[2,1]`), ref.Set) || ref.Equal(v(`[1,2,2]`), v(`[2,1]`), ref.Multiset) ||
		!ref.Equal(v(`[1,2,2]`), v(`[2,1,2]`), ref.Multiset) || ref.Equal(v(`[1,2]`), v(`[2,1]`), ref.List) ||
		ref.Equal(v(`[]`), v(`""`), ref.Set) || ref.Equal(v(`"1"`), v(`1`), ref.List) || !ref.Equal(v(`[[1,2]]`), v(`[[2,1]]`), ref.Set) {
		return fmt.Errorf("canon sanity failed")
	}
	return nil
}

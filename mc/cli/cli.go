// Package cli runs the real jd binaries (built from /repo's working tree by run.sh).
package cli

import (
	"bytes"
	"fmt"
	"os"
	"os/exec"
	"path/filepath"
	"strconv"
	"strings"
	"sync/atomic"
	"time"
)

// BinDir is where run.sh put jd-v2 (v2/jd) and jd-top (top-level main).
func BinDir() string {
	if d := os.Getenv("JDMC_BIN_DIR"); d != "" {
		return d
	}
	return "/verif/.work/bin"
}

func Bin(name string) string { return filepath.Join(BinDir(), name) }

// Out is the observable behaviour of one process.
type Out struct {
	Exit    int
	Stdout  string
	Stderr  string
	Timeout bool
}

var counter atomic.Int64

// TempDir returns a fresh scratch directory under /verif/.work/tmp (never /tmp).
func TempDir() string {
	base := os.Getenv("JDMC_TMP_DIR")
	if base == "" {
		base = "/verif/.work/tmp"
	}
	d := filepath.Join(base, fmt.Sprintf("p%d-%d", os.Getpid(), counter.Add(1)))
	os.MkdirAll(d, 0755)
	return d
}

// Run executes bin with args; stdin may be nil (then /dev/null).
func Run(dir, bin string, args []string, stdin *string) Out {
	return RunWith(dir, bin, args, stdin, "pipe")
}

// RunWith is Run with a choice of what kind of file descriptor carries the standard input:
// "pipe", "file" (a regular file opened for reading, as with `< file`) or "null" (/dev/null, a
// character device; only meaningful for empty input).
func RunWith(dir, bin string, args []string, stdin *string, how string) Out {
	return RunEnv(dir, bin, args, stdin, how, nil)
}

// HostileEnv is an environment in which nothing the library or the CLIs do may change: no colour wanted, a dumb
// terminal, a locale with unusual case mapping, no home directory, a far-away time zone.
var HostileEnv = []string{"NO_COLOR=1", "TERM=dumb", "LC_ALL=tr_TR.UTF-8", "LANG=tr_TR.UTF-8", "HOME=/nonexistent", "TZ=Pacific/Kiritimati", "CLICOLOR=0", "COLUMNS=20", "PATH=/nonexistent"}

// RunEnv is RunWith with extra environment variables appended to the inherited environment.
func RunEnv(dir, bin string, args []string, stdin *string, how string, env []string) Out {
	cmd := exec.Command(bin, args...)
	cmd.Dir = dir
	if env != nil {
		cmd.Env = append(os.Environ(), env...)
	}
	var so, se bytes.Buffer
	cmd.Stdout, cmd.Stderr = &so, &se
	if stdin != nil {
		switch {
		case how == "null" && *stdin == "":
			// leave cmd.Stdin nil: os/exec connects /dev/null
		case how == "file":
			// a regular file that an earlier reader has already consumed one line of: the input starts at the
			// descriptor's current offset, not at the start of the file
			const consumed = "a line consumed by an earlier reader\n"
			p := filepath.Join(dir, fmt.Sprintf("stdin-%d", counter.Add(1)))
			if err := os.WriteFile(p, []byte(consumed+*stdin), 0644); err != nil {
				panic(err)
			}
			f, err := os.Open(p)
			if err != nil {
				panic(err)
			}
			defer f.Close()
			if _, err := f.Seek(int64(len(consumed)), 0); err != nil {
				panic(err)
			}
			cmd.Stdin = f
		default:
			cmd.Stdin = bytes.NewReader([]byte(*stdin))
		}
	}
	if err := cmd.Start(); err != nil {
		return Out{Exit: -1, Stderr: "start: " + err.Error()}
	}
	done := make(chan error, 1)
	go func() { done <- cmd.Wait() }()
	var out Out
	select {
	case <-done:
	case <-time.After(60 * time.Second):
		cmd.Process.Kill()
		<-done
		out.Timeout = true
	}
	out.Stdout, out.Stderr = so.String(), se.String()
	if cmd.ProcessState != nil {
		out.Exit = cmd.ProcessState.ExitCode()
	} else {
		out.Exit = -1
	}
	return out
}

// WriteFile writes content into dir/name and returns the path.
// ExpandBytes replaces every marker of the form ⟦XX⟧ (two hex digits between white square brackets) by the byte
// 0xXX. Cases travel between processes and into replay files as JSON, which cannot carry invalid UTF-8; the
// marker can, and it is expanded only where the bytes are handed to jd.
func ExpandBytes(s string) string {
	const open, shut = "\u27e6", "\u27e7"
	for {
		i := strings.Index(s, open)
		if i < 0 || len(s) < i+len(open)+2+len(shut) || s[i+len(open)+2:i+len(open)+2+len(shut)] != shut {
			return s
		}
		b, err := strconv.ParseUint(s[i+len(open):i+len(open)+2], 16, 8)
		if err != nil {
			return s
		}
		s = s[:i] + string([]byte{byte(b)}) + s[i+len(open)+2+len(shut):]
	}
}

func WriteFile(dir, name, content string) string {
	content = ExpandBytes(content)
	p := filepath.Join(dir, name)
	if err := os.WriteFile(p, []byte(content), 0644); err != nil {
		panic(err)
	}
	return p
}

// Package impl adapts the real jd v2 library to the plain value model of the reference
// models. It never re-implements behaviour: every function calls the library.
package impl

import (
	"fmt"
	"strings"

	jd "github.com/josephburnett/jd/v2"

	"verif/mc/ref"
)

// OptSet is a named option set.
type OptSet struct {
	Name    string
	Opts    []jd.Option
	Reading ref.Reading
	Merge   bool
	Eps     float64
	Keys    []string
}

// Options parses an option-set name such as "none", "SET", "MULTISET", "SETKEYS:id,t",
// "MERGE", "SET+MERGE", "MULTISET+MERGE", "PRECISION:0.1".
func Options(name string) OptSet {
	o := OptSet{Name: name}
	for _, part := range strings.Split(name, "+") {
		switch {
		case part == "none" || part == "":
		case part == "SET":
			o.Opts = append(o.Opts, jd.SET)
			o.Reading = ref.Set
		case part == "MULTISET":
			o.Opts = append(o.Opts, jd.MULTISET)
			o.Reading = ref.Multiset
		case part == "MERGE":
			o.Opts = append(o.Opts, jd.MERGE)
			o.Merge = true
		case strings.HasPrefix(part, "SETKEYS:"):
			o.Keys = strings.Split(strings.TrimPrefix(part, "SETKEYS:"), ",")
			o.Opts = append(o.Opts, jd.SetKeys(o.Keys...))
			o.Reading = ref.Set
		case strings.HasPrefix(part, "PRECISION:"):
			fmt.Sscanf(strings.TrimPrefix(part, "PRECISION:"), "%g", &o.Eps)
			o.Opts = append(o.Opts, jd.Precision(o.Eps))
		default:
			panic("unknown option set " + name)
		}
	}
	return o
}

// Guard runs f and converts a panic into a message.
func Guard(f func()) (panicMsg string) {
	defer func() {
		if r := recover(); r != nil {
			panicMsg = fmt.Sprintf("panic: %v", r)
		}
	}()
	f()
	return ""
}

// Read parses JSON text with the library ("" is the void document).
func Read(text string) jd.JsonNode {
	n, err := jd.ReadJsonString(text)
	if err != nil {
		panic(fmt.Sprintf("harness: jd.ReadJsonString(%q): %v", text, err))
	}
	return n
}

// ToV observes a node through Json().
func ToV(n jd.JsonNode) (ref.V, error) {
	if n == nil {
		return nil, fmt.Errorf("nil JsonNode")
	}
	return ref.Parse(n.Json())
}

func nodesToV(ns []jd.JsonNode) ([]ref.V, error) {
	out := make([]ref.V, len(ns))
	for i, n := range ns {
		v, err := ToV(n)
		if err != nil {
			return nil, err
		}
		out[i] = v
	}
	return out, nil
}

// PathToPE converts a library path.
func PathToPE(p jd.Path) ([]ref.PE, error) {
	out := make([]ref.PE, len(p))
	for i, e := range p {
		switch t := e.(type) {
		case jd.PathKey:
			out[i] = ref.K(string(t))
		case jd.PathIndex:
			out[i] = ref.I(int(t))
		case jd.PathSet:
			out[i] = ref.SetPE()
		case jd.PathMultiset:
			out[i] = ref.MsetPE()
		case jd.PathSetKeys:
			m := map[string]ref.V{}
			for k, n := range t {
				v, err := ToV(n)
				if err != nil {
					return nil, err
				}
				m[k] = v
			}
			out[i] = ref.SetKeysPE(m)
		case jd.PathMultisetKeys:
			m := map[string]ref.V{}
			for k, n := range t {
				v, err := ToV(n)
				if err != nil {
					return nil, err
				}
				m[k] = v
			}
			out[i] = ref.PE{Kind: "multisetkeys", Keys: m}
		default:
			return nil, fmt.Errorf("unknown path element %T", e)
		}
	}
	return out, nil
}

// Hunks converts a library diff into model hunks by reading the public DiffElement fields.
func Hunks(d jd.Diff) ([]ref.Hunk, error) {
	out := make([]ref.Hunk, len(d))
	for i, e := range d {
		p, err := PathToPE(e.Path)
		if err != nil {
			return nil, err
		}
		h := ref.Hunk{Path: p, Merge: e.Metadata.Merge}
		if h.Before, err = nodesToV(e.Before); err != nil {
			return nil, err
		}
		if h.Remove, err = nodesToV(e.Remove); err != nil {
			return nil, err
		}
		if h.Add, err = nodesToV(e.Add); err != nil {
			return nil, err
		}
		if h.After, err = nodesToV(e.After); err != nil {
			return nil, err
		}
		out[i] = h
	}
	return out, nil
}

func vToNode(v ref.V) jd.JsonNode { return Read(ref.JSON(v)) }

func vsToNodes(vs []ref.V) []jd.JsonNode {
	if vs == nil {
		return nil
	}
	out := make([]jd.JsonNode, len(vs))
	for i, v := range vs {
		out[i] = vToNode(v)
	}
	return out
}

// PEToPath builds a library path from public path element types.
func PEToPath(p []ref.PE) jd.Path {
	out := make(jd.Path, len(p))
	for i, e := range p {
		switch e.Kind {
		case "key":
			out[i] = jd.PathKey(e.Key)
		case "index":
			out[i] = jd.PathIndex(e.Index)
		case "set":
			out[i] = jd.PathSet{}
		case "multiset":
			out[i] = jd.PathMultiset{}
		case "setkeys":
			m := jd.PathSetKeys{}
			for k, v := range e.Keys {
				m[k] = vToNode(v)
			}
			out[i] = m
		case "multisetkeys":
			m := jd.PathMultisetKeys{}
			for k, v := range e.Keys {
				m[k] = vToNode(v)
			}
			out[i] = m
		default:
			panic("bad PE kind " + e.Kind)
		}
	}
	return out
}

// Diff builds a library diff value from model hunks using only public fields.
func Diff(hs []ref.Hunk) jd.Diff {
	d := make(jd.Diff, len(hs))
	for i, h := range hs {
		d[i] = jd.DiffElement{
			Metadata: jd.Metadata{Merge: h.Merge},
			Path:     PEToPath(h.Path),
			Before:   vsToNodes(h.Before),
			Remove:   vsToNodes(h.Remove),
			Add:      vsToNodes(h.Add),
			After:    vsToNodes(h.After),
		}
	}
	return d
}

// PatchOutcome is the observable result of Patch.
type PatchOutcome struct {
	OK    bool
	Val   ref.V
	Err   string
	Panic string
}

func (p PatchOutcome) String() string {
	switch {
	case p.Panic != "":
		return p.Panic
	case !p.OK:
		return "error: " + p.Err
	}
	return "ok: " + ref.JSON(p.Val)
}

// Patch applies d to a freshly parsed copy of text.
func Patch(text string, d jd.Diff) PatchOutcome {
	var out PatchOutcome
	out.Panic = Guard(func() {
		n := Read(text)
		r, err := n.Patch(d)
		if err != nil {
			out.Err = err.Error()
			return
		}
		v, perr := ToV(r)
		if perr != nil {
			out.Err = "unrenderable result: " + perr.Error()
			return
		}
		out.OK, out.Val = true, v
	})
	if out.Panic != "" {
		out.OK = false
	}
	return out
}

// Live builds the document `text` as the live result of a Patch instead of reading it:
// every array of the document (at any depth) gets a sentinel element appended, the library
// diffs that state against the document under the option set `construct` and applies the
// diff. The value returned is what a caller holds after a.Patch(d) (for arrays: whatever
// typed view the patch functions return). ok=false if the document has no array, or the
// library could not build it (then that is some other check's subject).
func Live(text string, construct string) (n jd.JsonNode, ok bool) {
	v, err := ref.Parse(text)
	if err != nil || ref.IsVoid(v) {
		return nil, false
	}
	replace := strings.HasPrefix(construct, "replace:")
	construct = strings.TrimPrefix(construct, "replace:")
	// "leaf:<options>": the start document differs from the wanted one in every scalar that lies
	// below an array (other than an "id" member), so the hunks that build the live value have
	// paths that lead *through* array positions / keyed members into the containers below them.
	leaf := strings.HasPrefix(construct, "leaf:")
	construct = strings.TrimPrefix(construct, "leaf:")
	arrays := 0
	var grow func(x ref.V) ref.V
	if leaf {
		leaves := 0
		var below func(x ref.V, under bool, key string) ref.V
		below = func(x ref.V, under bool, key string) ref.V {
			switch t := x.(type) {
			case []interface{}:
				arrays++
				out := make([]interface{}, 0, len(t))
				for _, e := range t {
					out = append(out, below(e, true, ""))
				}
				return out
			case map[string]interface{}:
				out := map[string]interface{}{}
				for k, e := range t {
					out[k] = below(e, under, k)
				}
				return out
			}
			if under && key != "id" {
				leaves++
				return "\u0001leaf"
			}
			return x
		}
		grow = func(x ref.V) ref.V {
			r := below(x, false, "")
			if leaves == 0 {
				arrays = 0
			}
			return r
		}
	} else {
		grow = nil
	}
	if grow == nil {
		grow = func(x ref.V) ref.V {
			switch t := x.(type) {
			case []interface{}:
				arrays++
				if replace {
					// the whole array arrives as the added value of one hunk
					return "\u0001placeholder"
				}
				out := make([]interface{}, 0, len(t)+1)
				for _, e := range t {
					out = append(out, grow(e))
				}
				return append(out, "\u0001sentinel")
			case map[string]interface{}:
				out := map[string]interface{}{}
				for k, e := range t {
					out[k] = grow(e)
				}
				return out
			}
			return x
		}
	}
	start := ref.JSON(grow(v))
	if arrays == 0 {
		return nil, false
	}
	o := Options(construct)
	a0, a := Read(start), Read(text)
	res, perr := a0.Patch(a0.Diff(a, o.Opts...))
	if perr != nil || res == nil {
		return nil, false
	}
	got, gerr := ToV(res)
	if gerr != nil || !ref.Equal(got, v, o.Reading) {
		return nil, false
	}
	return res, true
}

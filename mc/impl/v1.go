package impl

import (
	"fmt"
	"strings"

	v1 "github.com/josephburnett/jd/lib"

	"verif/mc/ref"
)

// OptSetV1 is a named v1 metadata set.
type OptSetV1 struct {
	Name    string
	Meta    []v1.Metadata
	Reading ref.Reading
	Merge   bool
	Eps     float64
}

// OptionsV1 parses "none", "SET", "MULTISET", "SETKEYS:id", "SET+SETKEYS:id", "MERGE", "PRECISION:0.1".
func OptionsV1(name string) OptSetV1 {
	o := OptSetV1{Name: name}
	for _, part := range strings.Split(name, "+") {
		switch {
		case part == "none" || part == "":
		case part == "SET":
			o.Meta = append(o.Meta, v1.SET)
			o.Reading = ref.Set
		case part == "MULTISET":
			o.Meta = append(o.Meta, v1.MULTISET)
			o.Reading = ref.Multiset
		case part == "MERGE":
			o.Meta = append(o.Meta, v1.MERGE)
			o.Merge = true
		case strings.HasPrefix(part, "SETKEYS:"):
			o.Meta = append(o.Meta, v1.Setkeys(strings.Split(strings.TrimPrefix(part, "SETKEYS:"), ",")...))
		case strings.HasPrefix(part, "PRECISION:"):
			fmt.Sscanf(strings.TrimPrefix(part, "PRECISION:"), "%g", &o.Eps)
			o.Meta = append(o.Meta, v1.SetPrecision(o.Eps))
		default:
			panic("unknown v1 option set " + name)
		}
	}
	return o
}

// ReadV1 parses JSON text with the v1 library.
func ReadV1(text string) v1.JsonNode {
	n, err := v1.ReadJsonString(text)
	if err != nil {
		panic(fmt.Sprintf("harness: lib.ReadJsonString(%q): %v", text, err))
	}
	return n
}

// ToVV1 observes a v1 node through Json().
func ToVV1(n v1.JsonNode) (ref.V, error) {
	if n == nil {
		return nil, fmt.Errorf("nil JsonNode")
	}
	return ref.Parse(n.Json())
}

// PatchV1 applies d to a freshly parsed copy of text.
func PatchV1(text string, d v1.Diff) PatchOutcome {
	var out PatchOutcome
	out.Panic = Guard(func() {
		n := ReadV1(text)
		r, err := n.Patch(d)
		if err != nil {
			out.Err = err.Error()
			return
		}
		v, perr := ToVV1(r)
		if perr != nil {
			out.Err = "unrenderable result: " + perr.Error()
			return
		}
		out.OK, out.Val = true, v
	})
	if out.Panic != "" {
		out.OK = false
	}
	return out
}

package ref

import (
	"fmt"
	"strings"
	"unicode/utf8"
)

// Two independent YAML writers for "the same document in YAML".

// yamlQuote writes a YAML double-quoted scalar. With escapeAll every character outside
// printable ASCII is escaped; otherwise printable non-ASCII characters are written raw, except
// the YAML 1.1 line breaks (U+0085, U+2028, U+2029) and the BOM.
func yamlQuote(s string, escapeAll bool) string {
	var b strings.Builder
	b.WriteByte('"')
	for i := 0; i < len(s); {
		r, size := utf8.DecodeRuneInString(s[i:])
		i += size
		switch {
		case r == '"':
			b.WriteString(`\"`)
		case r == '\\':
			b.WriteString(`\\`)
		case r >= 0x20 && r <= 0x7e:
			b.WriteRune(r)
		case r < 0x100 && (r < 0x20 || r == 0x7f || r < 0xa0 || escapeAll):
			fmt.Fprintf(&b, `\x%02X`, r)
		case !escapeAll && r >= 0xa0 && r != 0x2028 && r != 0x2029 && r != 0xfeff && r != 0xfffe && r != 0xffff && r < 0x10000 && !(r >= 0xd800 && r <= 0xdfff):
			b.WriteRune(r)
		case r < 0x10000:
			fmt.Fprintf(&b, `\u%04X`, r)
		default:
			fmt.Fprintf(&b, `\U%08X`, r)
		}
	}
	b.WriteByte('"')
	return b.String()
}

func yamlNumber(f float64) string {
	s := FormatNumber(f)
	// yaml.v2 needs a mantissa digit before the exponent and reads "1e+21" as a float
	return s
}

// YAMLFlow writes v in flow style (JSON-like syntax, all non-ASCII escaped).
func YAMLFlow(v V) string {
	var b strings.Builder
	yamlFlow(&b, v)
	return b.String() + "\n"
}

func yamlFlow(b *strings.Builder, v V) {
	switch t := v.(type) {
	case Void:
	case nil:
		b.WriteString("null")
	case bool:
		if t {
			b.WriteString("true")
		} else {
			b.WriteString("false")
		}
	case float64:
		b.WriteString(yamlNumber(t))
	case string:
		b.WriteString(yamlQuote(t, true))
	case []interface{}:
		b.WriteByte('[')
		for i, e := range t {
			if i > 0 {
				b.WriteString(", ")
			}
			yamlFlow(b, e)
		}
		b.WriteByte(']')
	case map[string]interface{}:
		b.WriteByte('{')
		for i, k := range SortedKeys(t) {
			if i > 0 {
				b.WriteString(", ")
			}
			b.WriteString(yamlQuote(k, true))
			b.WriteString(": ")
			yamlFlow(b, t[k])
		}
		b.WriteByte('}')
	}
}

// YAMLBlock writes v in block style with every string double-quoted.
func YAMLBlock(v V) string {
	var b strings.Builder
	yamlBlock(&b, v, 0)
	return b.String()
}

func yamlScalar(v V) (string, bool) {
	switch t := v.(type) {
	case nil:
		return "null", true
	case bool:
		if t {
			return "true", true
		}
		return "false", true
	case float64:
		return yamlNumber(t), true
	case string:
		return yamlQuote(t, false), true
	case []interface{}:
		if len(t) == 0 {
			return "[]", true
		}
	case map[string]interface{}:
		if len(t) == 0 {
			return "{}", true
		}
	}
	return "", false
}

func yamlBlock(b *strings.Builder, v V, indent int) {
	pad := strings.Repeat(" ", indent)
	if s, ok := yamlScalar(v); ok {
		b.WriteString(pad + s + "\n")
		return
	}
	switch t := v.(type) {
	case Void:
	case []interface{}:
		for _, e := range t {
			if s, ok := yamlScalar(e); ok {
				b.WriteString(pad + "- " + s + "\n")
			} else {
				b.WriteString(pad + "-\n")
				yamlBlock(b, e, indent+2)
			}
		}
	case map[string]interface{}:
		for _, k := range SortedKeys(t) {
			if s, ok := yamlScalar(t[k]); ok {
				b.WriteString(pad + yamlQuote(k, false) + ": " + s + "\n")
			} else {
				b.WriteString(pad + yamlQuote(k, false) + ":\n")
				yamlBlock(b, t[k], indent+2)
			}
		}
	}
}

package ref

import (
	"encoding/json"
	"fmt"
	"sort"
	"strings"
)

// PE is one path element of a hunk.
type PE struct {
	Kind  string       `json:"kind"` // key | index | set | multiset | setkeys | multisetkeys
	Key   string       `json:"key,omitempty"`
	Index int          `json:"index,omitempty"`
	Keys  map[string]V `json:"keys,omitempty"`
}

func K(k string) PE { return PE{Kind: "key", Key: k} }
func I(i int) PE    { return PE{Kind: "index", Index: i} }
func SetPE() PE     { return PE{Kind: "set"} }
func MsetPE() PE    { return PE{Kind: "multiset"} }
func SetKeysPE(m map[string]V) PE {
	return PE{Kind: "setkeys", Keys: m}
}

// Hunk mirrors the public fields of jd's DiffElement in the plain value model.
type Hunk struct {
	Path   []PE `json:"path"`
	Before []V  `json:"before"`
	Remove []V  `json:"remove"`
	Add    []V  `json:"add"`
	After  []V  `json:"after"`
	Merge  bool `json:"merge,omitempty"`
}

// PathJSON renders the path as the JSON array jd prints after '@'.
func PathJSON(p []PE) string {
	parts := make([]string, len(p))
	for i, e := range p {
		switch e.Kind {
		case "key":
			parts[i] = JSON(e.Key)
		case "index":
			parts[i] = fmt.Sprint(e.Index)
		case "set":
			parts[i] = "{}"
		case "multiset":
			parts[i] = "[]"
		case "setkeys":
			parts[i] = JSON(map[string]interface{}(e.Keys))
		case "multisetkeys":
			parts[i] = "[" + JSON(map[string]interface{}(e.Keys)) + "]"
		}
	}
	return "[" + strings.Join(parts, ",") + "]"
}

func (h Hunk) String() string {
	var b strings.Builder
	if h.Merge {
		b.WriteString("^ {\"Merge\":true}\n")
	}
	b.WriteString("@ " + PathJSON(h.Path) + "\n")
	for _, v := range h.Before {
		if IsVoid(v) {
			b.WriteString("[\n")
		} else {
			b.WriteString("  " + JSON(v) + "\n")
		}
	}
	for _, v := range h.Remove {
		b.WriteString("- " + JSON(v) + "\n")
	}
	for _, v := range h.Add {
		if IsVoid(v) {
			b.WriteString("+\n")
		} else {
			b.WriteString("+ " + JSON(v) + "\n")
		}
	}
	for _, v := range h.After {
		if IsVoid(v) {
			b.WriteString("]\n")
		} else {
			b.WriteString("  " + JSON(v) + "\n")
		}
	}
	return b.String()
}

// T is the annotated working document of the hunk interpreter: a value tree in which every
// node remembers where it came from (Origin -1: the target document; k >= 0: added by hunk k)
// and arrays remember whether a set / multiset hunk touched them.
type T struct {
	K       byte // 'v' void, 'n' null, 'b' bool, 'f' number, 's' string, 'a' array, 'o' object
	B       bool
	F       float64
	S       string
	A       []*T
	O       map[string]*T
	Origin  int
	Touched Reading // for arrays: Set/Multiset if a set/multiset hunk rebuilt it
}

func FromV(v V, origin int) *T {
	switch x := v.(type) {
	case Void:
		return &T{K: 'v', Origin: origin}
	case nil:
		return &T{K: 'n', Origin: origin}
	case bool:
		return &T{K: 'b', B: x, Origin: origin}
	case float64:
		return &T{K: 'f', F: x, Origin: origin}
	case string:
		return &T{K: 's', S: x, Origin: origin}
	case []interface{}:
		t := &T{K: 'a', Origin: origin, A: make([]*T, len(x))}
		for i, e := range x {
			t.A[i] = FromV(e, origin)
		}
		return t
	case map[string]interface{}:
		t := &T{K: 'o', Origin: origin, O: make(map[string]*T, len(x))}
		for k, e := range x {
			t.O[k] = FromV(e, origin)
		}
		return t
	}
	panic(fmt.Sprintf("FromV: unsupported %T", v))
}

func (t *T) ToV() V {
	switch t.K {
	case 'v':
		return Void{}
	case 'n':
		return nil
	case 'b':
		return t.B
	case 'f':
		return t.F
	case 's':
		return t.S
	case 'a':
		out := make([]interface{}, len(t.A))
		for i, e := range t.A {
			out[i] = e.ToV()
		}
		return out
	case 'o':
		out := make(map[string]interface{}, len(t.O))
		for k, e := range t.O {
			out[k] = e.ToV()
		}
		return out
	}
	panic("ToV: bad kind")
}

// Reject is a reason-coded refusal of the interpreter. NoVerdict means the hunk is outside
// the domain the model defines (malformed, ambiguous keyed member ...): the case is dropped.
type Reject struct {
	Hunk       int
	Reason     string
	NoVerdict  bool
	UnderKeyed bool   // the expectation that failed lies inside a keyed set member ({"k":v} path element)
	Path       string // path of the failing hunk
}

func (r *Reject) Error() string {
	s := fmt.Sprintf("hunk %d at %s: %s", r.Hunk, r.Path, r.Reason)
	if r.UnderKeyed {
		s += " [inside a keyed set member]"
	}
	return s
}

// Trace records, per hunk, what the interpreter did; used by C06 / C07.
type Trace struct {
	RemovedOrigins [][]int // per hunk: origins of the removed items
	Added          []int   // per hunk: number of items inserted
}

type applier struct {
	h     Hunk
	idx   int
	tr    *Trace
	loose Reading // reading used when a whole-value replacement compares arrays (List = strict)
}

// ApplyHunks is the reference interpreter of strict hunks (Appendix A of DESIGN.md). Merge
// hunks are not interpreted (NoVerdict).
func ApplyHunks(c V, hunks []Hunk) (*T, *Trace, *Reject) {
	return ApplyHunksLoose(c, hunks, List)
}

// ApplyHunksLoose is ApplyHunks, except that whole-value replacement hunks compare the value
// found with the value expected under the given reading. The format documentation does not
// say how the removed value of a whole-array replacement produced in set / multiset mode is
// compared, so checks use the difference between the two modes to withhold a verdict.
func ApplyHunksLoose(c V, hunks []Hunk, loose Reading) (*T, *Trace, *Reject) {
	doc := FromV(Clone(c), -1)
	tr := &Trace{RemovedOrigins: make([][]int, len(hunks)), Added: make([]int, len(hunks))}
	for i, h := range hunks {
		if h.Merge {
			return nil, tr, &Reject{Hunk: i, Reason: "merge hunk not interpreted", NoVerdict: true}
		}
		ap := &applier{h: h, idx: i, tr: tr, loose: loose}
		nd, rej := ap.at(doc, h.Path)
		if rej != nil {
			rej.Hunk = i
			rej.Path = PathJSON(h.Path)
			return nil, tr, rej
		}
		doc = nd
	}
	return doc, tr, nil
}

func (ap *applier) rej(reason string) *Reject { return &Reject{Reason: reason} }
func (ap *applier) nov(reason string) *Reject { return &Reject{Reason: reason, NoVerdict: true} }

func eqList(t *T, v V) bool { return Canon(t.ToV(), List) == Canon(v, List) }

func (ap *applier) at(node *T, path []PE) (*T, *Reject) {
	h := ap.h
	if len(path) == 0 {
		// Whole-value replacement of `node`.
		if len(h.Before) > 0 || len(h.After) > 0 {
			return nil, ap.nov("context on a non-index path")
		}
		if len(h.Remove) > 1 || len(h.Add) > 1 {
			return nil, ap.nov("multiple values on a non-array path")
		}
		for _, v := range h.Remove {
			if IsVoid(v) {
				return nil, ap.nov("void in strict remove")
			}
		}
		if len(h.Remove) == 0 {
			if node.K != 'v' {
				return nil, ap.rej("expected nothing, found a value")
			}
		} else {
			if node.K == 'v' {
				return nil, ap.rej("expected a value, found nothing")
			}
			if Canon(node.ToV(), ap.loose) != Canon(h.Remove[0], ap.loose) {
				return nil, ap.rej("remove mismatch")
			}
			ap.tr.RemovedOrigins[ap.idx] = append(ap.tr.RemovedOrigins[ap.idx], node.Origin)
		}
		if len(h.Add) == 0 || IsVoid(h.Add[0]) {
			return &T{K: 'v', Origin: ap.idx}, nil
		}
		ap.tr.Added[ap.idx]++
		return FromV(Clone(h.Add[0]), ap.idx), nil
	}
	pe, rest := path[0], path[1:]
	switch pe.Kind {
	case "key":
		if node.K != 'o' {
			if node.K == 'v' {
				return nil, ap.rej("path missing")
			}
			return nil, ap.rej("wrong container kind: expected object")
		}
		child, ok := node.O[pe.Key]
		if !ok {
			child = &T{K: 'v', Origin: -1}
		}
		nc, rej := ap.at(child, rest)
		if rej != nil {
			return nil, rej
		}
		if nc.K == 'v' {
			delete(node.O, pe.Key)
		} else {
			node.O[pe.Key] = nc
		}
		return node, nil
	case "index":
		if node.K != 'a' {
			if node.K == 'v' {
				return nil, ap.rej("path missing")
			}
			return nil, ap.rej("wrong container kind: expected array")
		}
		i := pe.Index
		if len(rest) > 0 {
			if i < 0 || i >= len(node.A) {
				return nil, ap.rej("index beyond array")
			}
			nc, rej := ap.at(node.A[i], rest)
			if rej != nil {
				return nil, rej
			}
			if nc.K == 'v' {
				return nil, ap.nov("element replaced by void through a nested path")
			}
			node.A[i] = nc
			return node, nil
		}
		return ap.listHunk(node, i)
	case "set", "multiset":
		if len(rest) > 0 {
			return nil, ap.nov("set marker inside a path")
		}
		if node.K != 'a' {
			return nil, ap.rej("wrong container kind: set hunk on a non-array")
		}
		if len(h.Before) > 0 || len(h.After) > 0 {
			return nil, ap.nov("context on a set path")
		}
		if pe.Kind == "set" {
			return ap.setHunk(node)
		}
		return ap.msetHunk(node)
	case "setkeys":
		if len(rest) == 0 {
			return nil, ap.nov("path ends in a keyed member")
		}
		if node.K != 'a' {
			return nil, ap.rej("wrong container kind: keyed member of a non-array")
		}
		var hit []int
		for j, m := range node.A {
			if m.K != 'o' {
				continue
			}
			all := true
			for k, kv := range pe.Keys {
				mv, ok := m.O[k]
				if !ok || Canon(mv.ToV(), Set) != Canon(kv, Set) {
					all = false
					break
				}
			}
			if all {
				hit = append(hit, j)
			}
		}
		if len(hit) == 0 {
			return nil, ap.rej("no member with these keys")
		}
		if len(hit) > 1 {
			return nil, ap.nov("several members with these keys")
		}
		nc, rej := ap.at(node.A[hit[0]], rest)
		if rej != nil {
			rej.UnderKeyed = true
			return nil, rej
		}
		if nc.K == 'v' {
			return nil, ap.nov("member replaced by void through a nested path")
		}
		node.A[hit[0]] = nc
		if node.Touched == List {
			node.Touched = Set
		}
		return node, nil
	}
	return nil, ap.nov("unsupported path element " + pe.Kind)
}

func (ap *applier) listHunk(node *T, i int) (*T, *Reject) {
	h := ap.h
	l := node.A
	for _, v := range h.Remove {
		if IsVoid(v) {
			return nil, ap.nov("void in strict remove")
		}
	}
	for _, v := range h.Add {
		if IsVoid(v) {
			return nil, ap.nov("void in strict add")
		}
	}
	if i < 0 {
		return nil, ap.nov("negative index")
	}
	if i > len(l) {
		return nil, ap.rej("index beyond array")
	}
	// Several context lines (hand-written hunks): the k-th of m before-lines stands for the element at
	// i-m+k, the k-th after-line for the element at i+r+k; '[' and ']' stand for the position just
	// outside the array and nothing else.
	for k, b := range h.Before {
		pos := i - len(h.Before) + k
		if IsVoid(b) {
			if pos != -1 {
				return nil, ap.rej("boundary mismatch: [ not at start")
			}
			continue
		}
		if pos < 0 {
			return nil, ap.rej("before mismatch: no element before index 0")
		}
		if !eqList(l[pos], b) {
			return nil, ap.rej("before mismatch")
		}
	}
	r := len(h.Remove)
	for j := 0; j < r; j++ {
		if i+j >= len(l) {
			return nil, ap.rej("remove beyond array")
		}
		if !eqList(l[i+j], h.Remove[j]) {
			return nil, ap.rej("remove mismatch")
		}
	}
	for k, a := range h.After {
		pos := i + r + k
		if IsVoid(a) {
			if pos != len(l) {
				return nil, ap.rej("boundary mismatch: ] not at end")
			}
			continue
		}
		if pos >= len(l) {
			return nil, ap.rej("after mismatch: no element after")
		}
		if !eqList(l[pos], a) {
			return nil, ap.rej("after mismatch")
		}
	}
	for j := 0; j < r; j++ {
		ap.tr.RemovedOrigins[ap.idx] = append(ap.tr.RemovedOrigins[ap.idx], l[i+j].Origin)
	}
	out := make([]*T, 0, len(l)-r+len(h.Add))
	out = append(out, l[:i]...)
	for _, a := range h.Add {
		out = append(out, FromV(Clone(a), ap.idx))
		ap.tr.Added[ap.idx]++
	}
	out = append(out, l[i+r:]...)
	node.A = out
	return node, nil
}

func (ap *applier) setHunk(node *T) (*T, *Reject) {
	h := ap.h
	for _, v := range append(append([]V{}, h.Remove...), h.Add...) {
		if IsVoid(v) {
			return nil, ap.nov("void in a set hunk")
		}
	}
	members := node.A
	for _, r := range h.Remove {
		rc := Canon(r, Set)
		found := false
		out := members[:0:0]
		for _, m := range members {
			if Canon(m.ToV(), Set) == rc {
				if !found {
					ap.tr.RemovedOrigins[ap.idx] = append(ap.tr.RemovedOrigins[ap.idx], m.Origin)
				}
				found = true
				continue
			}
			out = append(out, m)
		}
		if !found {
			return nil, ap.rej("set member absent")
		}
		members = out
	}
	for _, a := range h.Add {
		ac := Canon(a, Set)
		present := false
		for _, m := range members {
			if Canon(m.ToV(), Set) == ac {
				present = true
				break
			}
		}
		if !present {
			members = append(members, FromV(Clone(a), ap.idx))
			ap.tr.Added[ap.idx]++
		}
	}
	node.A = members
	node.Touched = Set
	return node, nil
}

func (ap *applier) msetHunk(node *T) (*T, *Reject) {
	h := ap.h
	for _, v := range append(append([]V{}, h.Remove...), h.Add...) {
		if IsVoid(v) {
			return nil, ap.nov("void in a multiset hunk")
		}
	}
	members := append([]*T{}, node.A...)
	for _, r := range h.Remove {
		rc := Canon(r, Multiset)
		found := -1
		for j, m := range members {
			if Canon(m.ToV(), Multiset) == rc {
				found = j
				break
			}
		}
		if found < 0 {
			return nil, ap.rej("multiset member absent or not present often enough")
		}
		ap.tr.RemovedOrigins[ap.idx] = append(ap.tr.RemovedOrigins[ap.idx], members[found].Origin)
		members = append(members[:found], members[found+1:]...)
	}
	for _, a := range h.Add {
		members = append(members, FromV(Clone(a), ap.idx))
		ap.tr.Added[ap.idx]++
	}
	node.A = members
	node.Touched = Multiset
	return node, nil
}

// CompareMixed compares the model's result tree with an observed value: arrays that a
// set / multiset hunk rebuilt are compared under that reading (member order is not fixed by
// the format), everything else positionally.
func CompareMixed(t *T, v V) bool {
	return compareMixed(t, v, List)
}

func compareMixed(t *T, v V, under Reading) bool {
	if under != List {
		return Canon(t.ToV(), under) == Canon(v, under)
	}
	switch t.K {
	case 'a':
		x, ok := v.([]interface{})
		if !ok {
			return false
		}
		if t.Touched != List {
			return Canon(t.ToV(), t.Touched) == Canon(v, t.Touched)
		}
		if len(x) != len(t.A) {
			return false
		}
		for i := range x {
			if !compareMixed(t.A[i], x[i], List) {
				return false
			}
		}
		return true
	case 'o':
		x, ok := v.(map[string]interface{})
		if !ok || len(x) != len(t.O) {
			return false
		}
		for k, tv := range t.O {
			xv, ok := x[k]
			if !ok || !compareMixed(tv, xv, List) {
				return false
			}
		}
		return true
	}
	return Canon(t.ToV(), List) == Canon(v, List)
}

// CountOrigin counts nodes directly inserted by hunk k that are still members of an array or
// object (or the root) in the tree.
func CountOrigin(t *T, k int) int {
	n := 0
	var walk func(x *T, parentOrigin int, isRoot bool)
	walk = func(x *T, parentOrigin int, isRoot bool) {
		if x.Origin == k && (isRoot || parentOrigin != k) && x.K != 'v' {
			n++
		}
		for _, e := range x.A {
			walk(e, x.Origin, false)
		}
		for _, e := range x.O {
			walk(e, x.Origin, false)
		}
	}
	walk(t, -2, true)
	return n
}

// LCSLen is the textbook DP on canonical element strings.
func LCSLen(x, y []string) int {
	m, n := len(x), len(y)
	prev := make([]int, n+1)
	cur := make([]int, n+1)
	for i := 1; i <= m; i++ {
		for j := 1; j <= n; j++ {
			if x[i-1] == y[j-1] {
				cur[j] = prev[j-1] + 1
			} else if prev[j] >= cur[j-1] {
				cur[j] = prev[j]
			} else {
				cur[j] = cur[j-1]
			}
		}
		prev, cur = cur, prev
		for j := range cur {
			cur[j] = 0
		}
	}
	return prev[n]
}

// SortedKeys returns the sorted keys of an object value.
func SortedKeys(m map[string]interface{}) []string {
	keys := make([]string, 0, len(m))
	for k := range m {
		keys = append(keys, k)
	}
	sort.Strings(keys)
	return keys
}

// ---------------------------------------------------------------------------------------
// Serialisation of hunk sequences for replay files (values as harness JSON text, "" = void)
// ---------------------------------------------------------------------------------------

type wirePE struct {
	Kind  string            `json:"kind"`
	Key   string            `json:"key,omitempty"`
	Index int               `json:"index,omitempty"`
	Keys  map[string]string `json:"keys,omitempty"`
}

type wireHunk struct {
	Path   []wirePE `json:"path"`
	Before []string `json:"before,omitempty"`
	Remove []string `json:"remove,omitempty"`
	Add    []string `json:"add,omitempty"`
	After  []string `json:"after,omitempty"`
	Merge  bool     `json:"merge,omitempty"`
}

func encVals(vs []V) []string {
	if vs == nil {
		return nil
	}
	out := make([]string, len(vs))
	for i, v := range vs {
		out[i] = JSON(v)
	}
	return out
}

func decVals(ss []string) []V {
	if ss == nil {
		return nil
	}
	out := make([]V, len(ss))
	for i, s := range ss {
		out[i] = MustParse(s)
	}
	return out
}

// EncodeHunks serialises a hunk sequence.
func EncodeHunks(hs []Hunk) string {
	w := make([]wireHunk, len(hs))
	for i, h := range hs {
		wh := wireHunk{Before: encVals(h.Before), Remove: encVals(h.Remove), Add: encVals(h.Add), After: encVals(h.After), Merge: h.Merge}
		wh.Path = make([]wirePE, len(h.Path))
		for j, pe := range h.Path {
			wp := wirePE{Kind: pe.Kind, Key: pe.Key, Index: pe.Index}
			if pe.Keys != nil {
				wp.Keys = map[string]string{}
				for k, v := range pe.Keys {
					wp.Keys[k] = JSON(v)
				}
			}
			wh.Path[j] = wp
		}
		w[i] = wh
	}
	b, err := json.Marshal(w)
	if err != nil {
		panic(err)
	}
	return string(b)
}

// DecodeHunks is the inverse of EncodeHunks.
func DecodeHunks(s string) []Hunk {
	var w []wireHunk
	if err := json.Unmarshal([]byte(s), &w); err != nil {
		panic(fmt.Sprintf("DecodeHunks: %v", err))
	}
	hs := make([]Hunk, len(w))
	for i, wh := range w {
		h := Hunk{Before: decVals(wh.Before), Remove: decVals(wh.Remove), Add: decVals(wh.Add), After: decVals(wh.After), Merge: wh.Merge}
		h.Path = make([]PE, len(wh.Path))
		for j, wp := range wh.Path {
			pe := PE{Kind: wp.Kind, Key: wp.Key, Index: wp.Index}
			if wp.Keys != nil {
				pe.Keys = map[string]V{}
				for k, v := range wp.Keys {
					pe.Keys[k] = MustParse(v)
				}
			}
			h.Path[j] = pe
		}
		hs[i] = h
	}
	return hs
}

// Witness builds a document on which the (strict) hunk applies, or ok=false.
func Witness(h Hunk) (V, bool) {
	return witness(h, h.Path)
}

func witness(h Hunk, path []PE) (V, bool) {
	if len(path) == 0 {
		if len(h.Remove) == 0 {
			return Void{}, true
		}
		return Clone(h.Remove[0]), true
	}
	pe, rest := path[0], path[1:]
	switch pe.Kind {
	case "key":
		sub, ok := witness(h, rest)
		if !ok {
			return nil, false
		}
		o := map[string]interface{}{}
		if !IsVoid(sub) {
			o[pe.Key] = sub
		}
		return o, true
	case "index":
		if pe.Index < 0 {
			return nil, false
		}
		if len(rest) > 0 {
			sub, ok := witness(h, rest)
			if !ok || IsVoid(sub) {
				return nil, false
			}
			a := []interface{}{}
			for i := 0; i < pe.Index; i++ {
				a = append(a, 0.0)
			}
			return append(a, sub), true
		}
		a := []interface{}{}
		i := pe.Index
		if len(h.Before) == 1 && IsVoid(h.Before[0]) && i != 0 {
			return nil, false
		}
		if len(h.Before) == 1 && !IsVoid(h.Before[0]) && i == 0 {
			return nil, false
		}
		for j := 0; j < i; j++ {
			if j == i-1 && len(h.Before) == 1 && !IsVoid(h.Before[0]) {
				a = append(a, Clone(h.Before[0]))
			} else {
				a = append(a, 0.0)
			}
		}
		for _, r := range h.Remove {
			a = append(a, Clone(r))
		}
		if len(h.After) == 1 && !IsVoid(h.After[0]) {
			a = append(a, Clone(h.After[0]))
		} else if len(h.After) == 0 {
			a = append(a, 0.0)
		}
		return a, true
	case "set", "multiset":
		a := []interface{}{}
		for _, r := range h.Remove {
			a = append(a, Clone(r))
		}
		return a, true
	case "setkeys":
		sub, ok := witness(h, rest)
		if !ok {
			return nil, false
		}
		o, isObj := sub.(map[string]interface{})
		if !isObj {
			return nil, false
		}
		for k, v := range pe.Keys {
			o[k] = Clone(v)
		}
		return []interface{}{o}, true
	}
	return nil, false
}

package ref

import (
	"encoding/json"
	"fmt"
	"io"
	"strings"
)

// ---------------------------------------------------------------------------------------
// RFC 6901 JSON Pointer
// ---------------------------------------------------------------------------------------

// ParsePointer splits a JSON Pointer into unescaped reference tokens.
func ParsePointer(p string) ([]string, error) {
	if p == "" {
		return []string{}, nil
	}
	if p[0] != '/' {
		return nil, fmt.Errorf("pointer %q does not start with /", p)
	}
	raw := strings.Split(p[1:], "/")
	out := make([]string, len(raw))
	for i, t := range raw {
		var b strings.Builder
		for j := 0; j < len(t); j++ {
			if t[j] == '~' {
				if j+1 >= len(t) {
					return nil, fmt.Errorf("pointer %q: dangling ~", p)
				}
				switch t[j+1] {
				case '0':
					b.WriteByte('~')
				case '1':
					b.WriteByte('/')
				default:
					return nil, fmt.Errorf("pointer %q: bad escape", p)
				}
				j++
			} else {
				b.WriteByte(t[j])
			}
		}
		out[i] = b.String()
	}
	return out, nil
}

// EscapeToken escapes one reference token.
func EscapeToken(t string) string {
	t = strings.ReplaceAll(t, "~", "~0")
	return strings.ReplaceAll(t, "/", "~1")
}

func arrayIndex(tok string, n int, allowEnd bool) (int, error) {
	if tok == "-" {
		if allowEnd {
			return n, nil
		}
		return 0, fmt.Errorf("'-' refers to a nonexistent element")
	}
	if tok == "" {
		return 0, fmt.Errorf("empty array index")
	}
	if len(tok) > 1 && tok[0] == '0' {
		return 0, fmt.Errorf("leading zero in array index %q", tok)
	}
	i := 0
	for _, c := range tok {
		if c < '0' || c > '9' {
			return 0, fmt.Errorf("bad array index %q", tok)
		}
		i = i*10 + int(c-'0')
		if i > 1<<30 {
			return 0, fmt.Errorf("array index too large")
		}
	}
	return i, nil
}

func ptrGet(doc V, toks []string) (V, error) {
	cur := doc
	for _, t := range toks {
		switch c := cur.(type) {
		case map[string]interface{}:
			v, ok := c[t]
			if !ok {
				return nil, fmt.Errorf("member %q not found", t)
			}
			cur = v
		case []interface{}:
			i, err := arrayIndex(t, len(c), false)
			if err != nil {
				return nil, err
			}
			if i >= len(c) {
				return nil, fmt.Errorf("index %d out of range", i)
			}
			cur = c[i]
		default:
			return nil, fmt.Errorf("cannot descend into %s", Kind(cur))
		}
	}
	return cur, nil
}

// ptrModify rebuilds doc with the location toks changed by f, which receives the parent
// container and the last token and returns the new parent.
func ptrModify(doc V, toks []string, f func(parent V, last string) (V, error)) (V, error) {
	if len(toks) == 1 {
		return f(doc, toks[0])
	}
	switch c := doc.(type) {
	case map[string]interface{}:
		child, ok := c[toks[0]]
		if !ok {
			return nil, fmt.Errorf("member %q not found", toks[0])
		}
		nc, err := ptrModify(child, toks[1:], f)
		if err != nil {
			return nil, err
		}
		out := make(map[string]interface{}, len(c))
		for k, v := range c {
			out[k] = v
		}
		out[toks[0]] = nc
		return out, nil
	case []interface{}:
		i, err := arrayIndex(toks[0], len(c), false)
		if err != nil {
			return nil, err
		}
		if i >= len(c) {
			return nil, fmt.Errorf("index %d out of range", i)
		}
		nc, err := ptrModify(c[i], toks[1:], f)
		if err != nil {
			return nil, err
		}
		out := append([]interface{}{}, c...)
		out[i] = nc
		return out, nil
	}
	return nil, fmt.Errorf("cannot descend into %s", Kind(doc))
}

func opAdd(doc V, toks []string, val V) (V, error) {
	if len(toks) == 0 {
		return Clone(val), nil
	}
	return ptrModify(doc, toks, func(parent V, last string) (V, error) {
		switch c := parent.(type) {
		case map[string]interface{}:
			out := make(map[string]interface{}, len(c)+1)
			for k, v := range c {
				out[k] = v
			}
			out[last] = Clone(val)
			return out, nil
		case []interface{}:
			i, err := arrayIndex(last, len(c), true)
			if err != nil {
				return nil, err
			}
			if i > len(c) {
				return nil, fmt.Errorf("add index %d out of range", i)
			}
			out := make([]interface{}, 0, len(c)+1)
			out = append(out, c[:i]...)
			out = append(out, Clone(val))
			out = append(out, c[i:]...)
			return out, nil
		}
		return nil, fmt.Errorf("cannot add into %s", Kind(parent))
	})
}

func opRemove(doc V, toks []string) (V, error) {
	if len(toks) == 0 {
		// RFC 6902 does not say what removing the root leaves behind; the most permissive
		// reading is taken: the document becomes absent and only `add ""` can follow.
		if IsVoid(doc) {
			return nil, fmt.Errorf("no document to remove")
		}
		return Void{}, nil
	}
	return ptrModify(doc, toks, func(parent V, last string) (V, error) {
		switch c := parent.(type) {
		case map[string]interface{}:
			if _, ok := c[last]; !ok {
				return nil, fmt.Errorf("member %q not found", last)
			}
			out := make(map[string]interface{}, len(c))
			for k, v := range c {
				if k != last {
					out[k] = v
				}
			}
			return out, nil
		case []interface{}:
			i, err := arrayIndex(last, len(c), false)
			if err != nil {
				return nil, err
			}
			if i >= len(c) {
				return nil, fmt.Errorf("remove index %d out of range", i)
			}
			out := make([]interface{}, 0, len(c))
			out = append(out, c[:i]...)
			out = append(out, c[i+1:]...)
			return out, nil
		}
		return nil, fmt.Errorf("cannot remove from %s", Kind(parent))
	})
}

// Op is one RFC 6902 operation as parsed by the model.
type Op struct {
	Op       string
	Path     string
	From     string
	Value    V
	HasValue bool
	HasFrom  bool
	HasPath  bool
}

// ParsePatch parses an RFC 6902 document and checks its shape: an array of objects each with
// a string "op" from the six defined operations, a string "path", and "value" / "from"
// where the operation requires them. Unknown members are ignored (RFC 6902 section 4).
func ParsePatch(text string) ([]Op, error) {
	var raw []map[string]json.RawMessage
	dec := json.NewDecoder(strings.NewReader(text))
	if err := dec.Decode(&raw); err != nil {
		return nil, fmt.Errorf("patch is not an array of objects: %v", err)
	}
	// a JSON Patch document is one JSON document: nothing but white space may follow the array
	if _, err := dec.Token(); err != io.EOF {
		return nil, fmt.Errorf("patch text continues after the array (%v)", err)
	}
	if raw == nil {
		return nil, fmt.Errorf("patch is null, not an array")
	}
	ops := make([]Op, 0, len(raw))
	for i, r := range raw {
		if r == nil {
			return nil, fmt.Errorf("op %d is null", i)
		}
		var o Op
		if m, ok := r["op"]; ok {
			if err := json.Unmarshal(m, &o.Op); err != nil {
				return nil, fmt.Errorf("op %d: op is not a string", i)
			}
		} else {
			return nil, fmt.Errorf("op %d: missing op", i)
		}
		if m, ok := r["path"]; ok {
			if err := json.Unmarshal(m, &o.Path); err != nil || string(m) == "null" {
				return nil, fmt.Errorf("op %d: path is not a string", i)
			}
			o.HasPath = true
		} else {
			return nil, fmt.Errorf("op %d: missing path", i)
		}
		if m, ok := r["from"]; ok {
			if err := json.Unmarshal(m, &o.From); err != nil || string(m) == "null" {
				return nil, fmt.Errorf("op %d: from is not a string", i)
			}
			o.HasFrom = true
		}
		if m, ok := r["value"]; ok {
			v, err := Parse(string(m))
			if err != nil {
				return nil, err
			}
			o.Value, o.HasValue = v, true
		}
		switch o.Op {
		case "add", "replace", "test":
			if !o.HasValue {
				return nil, fmt.Errorf("op %d: %s without value", i, o.Op)
			}
		case "move", "copy":
			if !o.HasFrom {
				return nil, fmt.Errorf("op %d: %s without from", i, o.Op)
			}
		case "remove":
		default:
			return nil, fmt.Errorf("op %d: unknown op %q", i, o.Op)
		}
		if _, err := ParsePointer(o.Path); err != nil {
			return nil, fmt.Errorf("op %d: %v", i, err)
		}
		if o.HasFrom {
			if _, err := ParsePointer(o.From); err != nil {
				return nil, fmt.Errorf("op %d: %v", i, err)
			}
		}
		ops = append(ops, o)
	}
	return ops, nil
}

// Apply6902 evaluates an RFC 6902 patch on doc (atomic: any failing op fails the patch).
func Apply6902(doc V, ops []Op) (V, error) {
	cur := Clone(doc)
	for i, o := range ops {
		toks, err := ParsePointer(o.Path)
		if err != nil {
			return nil, err
		}
		if IsVoid(cur) && !(o.Op == "add" && len(toks) == 0) {
			return nil, fmt.Errorf("op %d (%s %s): no document", i, o.Op, o.Path)
		}
		switch o.Op {
		case "add":
			cur, err = opAdd(cur, toks, o.Value)
		case "remove":
			cur, err = opRemove(cur, toks)
		case "replace":
			if _, err = ptrGet(cur, toks); err == nil {
				if len(toks) == 0 {
					cur = Clone(o.Value)
				} else {
					cur, err = opRemove(cur, toks)
					if err == nil {
						cur, err = opAdd(cur, toks, o.Value)
					}
				}
			}
		case "test":
			var got V
			got, err = ptrGet(cur, toks)
			if err == nil && Canon(got, List) != Canon(o.Value, List) {
				err = fmt.Errorf("test failed: found %s, wanted %s", JSON(got), JSON(o.Value))
			}
		case "move", "copy":
			var ftoks []string
			ftoks, err = ParsePointer(o.From)
			if err != nil {
				break
			}
			var val V
			val, err = ptrGet(cur, ftoks)
			if err != nil {
				break
			}
			if o.Op == "move" {
				if len(toks) > len(ftoks) {
					prefix := true
					for j := range ftoks {
						if ftoks[j] != toks[j] {
							prefix = false
						}
					}
					if prefix {
						err = fmt.Errorf("move into own child")
						break
					}
				}
				if len(ftoks) == 0 {
					// moving the root onto itself is a no-op; elsewhere it is caught above
					if len(toks) == 0 {
						break
					}
				}
				cur, err = opRemove(cur, ftoks)
				if err != nil {
					break
				}
			}
			cur, err = opAdd(cur, toks, val)
		default:
			err = fmt.Errorf("unknown op %q", o.Op)
		}
		if err != nil {
			return nil, fmt.Errorf("op %d (%s %s): %v", i, o.Op, o.Path, err)
		}
	}
	return cur, nil
}

// Eval6902 parses and applies.
func Eval6902(doc V, patchText string) (V, error) {
	ops, err := ParsePatch(patchText)
	if err != nil {
		return nil, err
	}
	return Apply6902(doc, ops)
}

// ---------------------------------------------------------------------------------------
// RFC 7386 JSON Merge Patch, section 2 pseudocode
// ---------------------------------------------------------------------------------------

// MergePatch is
//
//	define MergePatch(Target, Patch):
//	  if Patch is an Object:
//	    if Target is not an Object: Target = {}
//	    for each Name/Value pair in Patch:
//	      if Value is null: if Name exists in Target: remove the Name/Value pair from Target
//	      else: Target[Name] = MergePatch(Target[Name], Value)
//	    return Target
//	  else: return Patch
func MergePatch(target, patch V) V {
	p, ok := patch.(map[string]interface{})
	if !ok {
		return Clone(patch)
	}
	t, ok := target.(map[string]interface{})
	out := map[string]interface{}{}
	if ok {
		for k, v := range t {
			out[k] = Clone(v)
		}
	}
	for name, value := range p {
		if value == nil {
			delete(out, name)
		} else {
			var sub V = Void{}
			if cur, ok := out[name]; ok {
				sub = cur
			}
			out[name] = MergePatch(sub, value)
		}
	}
	return out
}

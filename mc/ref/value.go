// Package ref holds the boring reference models the explorer compares jd against.
//
// The value model V is the plain Go shape produced by encoding/json
// (nil | bool | float64 | string | []interface{} | map[string]interface{})
// plus the sentinel Void{} for jd's "no document" value.
package ref

import (
	"bytes"
	"encoding/json"
	"fmt"
	"io"
	"math"
	"math/big"
	"sort"
	"strconv"
	"strings"
	"unicode/utf8"
)

// V is a JSON value or Void{}.
type V = interface{}

// Void is the absent document / boundary marker.
type Void struct{}

func IsVoid(v V) bool { _, ok := v.(Void); return ok }

// Reading selects how arrays are compared.
type Reading int

const (
	List Reading = iota
	Set
	Multiset
)

func (r Reading) String() string {
	switch r {
	case Set:
		return "set"
	case Multiset:
		return "multiset"
	}
	return "list"
}

// Parse parses JSON text; blank text is Void.
func Parse(s string) (V, error) {
	if strings.TrimSpace(s) == "" {
		return Void{}, nil
	}
	dec := json.NewDecoder(strings.NewReader(s))
	var v interface{}
	if err := dec.Decode(&v); err != nil {
		return nil, err
	}
	if _, err := dec.Token(); err != io.EOF {
		return nil, fmt.Errorf("trailing data")
	}
	return v, nil
}

func MustParse(s string) V {
	v, err := Parse(s)
	if err != nil {
		panic(fmt.Sprintf("ref.MustParse(%q): %v", s, err))
	}
	return v
}

// JSON is the harness's own JSON writer (object keys sorted). Void renders as "".
func JSON(v V) string {
	var b bytes.Buffer
	writeJSON(&b, v)
	return b.String()
}

func writeJSON(b *bytes.Buffer, v V) {
	switch t := v.(type) {
	case Void:
	case nil:
		b.WriteString("null")
	case bool:
		if t {
			b.WriteString("true")
		} else {
			b.WriteString("false")
		}
	case float64:
		b.WriteString(FormatNumber(t))
	case int:
		b.WriteString(strconv.Itoa(t))
	case string:
		writeString(b, t)
	case []interface{}:
		b.WriteByte('[')
		for i, e := range t {
			if i > 0 {
				b.WriteByte(',')
			}
			writeJSON(b, e)
		}
		b.WriteByte(']')
	case map[string]interface{}:
		keys := make([]string, 0, len(t))
		for k := range t {
			keys = append(keys, k)
		}
		sort.Strings(keys)
		b.WriteByte('{')
		for i, k := range keys {
			if i > 0 {
				b.WriteByte(',')
			}
			writeString(b, k)
			b.WriteByte(':')
			writeJSON(b, t[k])
		}
		b.WriteByte('}')
	default:
		panic(fmt.Sprintf("ref.JSON: unsupported %T", v))
	}
}

// FormatNumber writes a float64 as a JSON number that parses back to the same float64.
func FormatNumber(f float64) string {
	if math.IsInf(f, 0) || math.IsNaN(f) {
		panic("non-finite number")
	}
	if f == math.Trunc(f) && math.Abs(f) < 1e15 {
		if f == 0 && math.Signbit(f) {
			return "-0"
		}
		return strconv.FormatInt(int64(f), 10)
	}
	return strconv.FormatFloat(f, 'g', -1, 64)
}

// JSONRaw writes v like JSON but leaves every character that JSON allows unescaped in a string as it is
// (DEL, C1 controls, U+2028 / U+2029, U+FEFF, ... appear as raw UTF-8).
func JSONRaw(v V) string {
	rawStrings = true
	defer func() { rawStrings = false }()
	return JSON(v)
}

var rawStrings bool

func writeString(b *bytes.Buffer, s string) {
	if rawStrings {
		b.WriteByte('"')
		for _, r := range s {
			switch {
			case r == '"':
				b.WriteString(`\"`)
			case r == '\\':
				b.WriteString(`\\`)
			case r < 0x20:
				fmt.Fprintf(b, `\u%04x`, r)
			default:
				b.WriteRune(r)
			}
		}
		b.WriteByte('"')
		return
	}
	b.WriteByte('"')
	for i := 0; i < len(s); {
		c := s[i]
		if c < utf8.RuneSelf {
			switch {
			case c == '"':
				b.WriteString(`\"`)
			case c == '\\':
				b.WriteString(`\\`)
			case c < 0x20 || c == 0x7f:
				fmt.Fprintf(b, `\u%04x`, c)
			default:
				b.WriteByte(c)
			}
			i++
			continue
		}
		r, size := utf8.DecodeRuneInString(s[i:])
		if r == utf8.RuneError && size == 1 {
			b.WriteString(`�`)
			i++
			continue
		}
		if r == 0x2028 || r == 0x2029 || r == 0x85 || r == 0xfeff {
			fmt.Fprintf(b, `\u%04x`, r)
		} else {
			b.WriteString(s[i : i+size])
		}
		i += size
	}
	b.WriteByte('"')
}

// Canon gives a canonical string of v under a reading of arrays. Two values denote the
// same value under the reading iff their canons are equal.
func Canon(v V, r Reading) string {
	var b bytes.Buffer
	canon(&b, v, r)
	return b.String()
}

func canon(b *bytes.Buffer, v V, r Reading) {
	switch t := v.(type) {
	case Void:
		b.WriteString("<void>")
	case nil:
		b.WriteString("null")
	case bool:
		if t {
			b.WriteString("true")
		} else {
			b.WriteString("false")
		}
	case float64:
		if t == 0 {
			b.WriteString("n:0")
		} else {
			b.WriteString("n:" + strconv.FormatFloat(t, 'g', -1, 64))
		}
	case string:
		b.WriteString("s:" + strconv.Quote(t))
	case []interface{}:
		parts := make([]string, len(t))
		for i, e := range t {
			parts[i] = Canon(e, r)
		}
		switch r {
		case Set:
			sort.Strings(parts)
			out := parts[:0]
			for i, p := range parts {
				if i == 0 || p != parts[i-1] {
					out = append(out, p)
				}
			}
			parts = out
			b.WriteString("S[")
		case Multiset:
			sort.Strings(parts)
			b.WriteString("M[")
		default:
			b.WriteString("L[")
		}
		b.WriteString(strings.Join(parts, ","))
		b.WriteByte(']')
	case map[string]interface{}:
		keys := make([]string, 0, len(t))
		for k := range t {
			keys = append(keys, k)
		}
		sort.Strings(keys)
		b.WriteByte('{')
		for i, k := range keys {
			if i > 0 {
				b.WriteByte(',')
			}
			b.WriteString(strconv.Quote(k))
			b.WriteByte(':')
			canon(b, t[k], r)
		}
		b.WriteByte('}')
	default:
		panic(fmt.Sprintf("ref.Canon: unsupported %T", v))
	}
}

// Equal is equality under a reading.
func Equal(a, b V, r Reading) bool { return Canon(a, r) == Canon(b, r) }

// EqualEps is list-reading equality with numbers within eps.
func EqualEps(a, b V, eps float64) bool {
	switch x := a.(type) {
	case Void:
		return IsVoid(b)
	case nil:
		return b == nil
	case bool:
		y, ok := b.(bool)
		return ok && x == y
	case float64:
		y, ok := b.(float64)
		return ok && ExactWithin(x, y, eps)
	case string:
		y, ok := b.(string)
		return ok && x == y
	case []interface{}:
		y, ok := b.([]interface{})
		if !ok || len(x) != len(y) {
			return false
		}
		for i := range x {
			if !EqualEps(x[i], y[i], eps) {
				return false
			}
		}
		return true
	case map[string]interface{}:
		y, ok := b.(map[string]interface{})
		if !ok || len(x) != len(y) {
			return false
		}
		for k, xv := range x {
			yv, ok := y[k]
			if !ok || !EqualEps(xv, yv, eps) {
				return false
			}
		}
		return true
	}
	panic(fmt.Sprintf("ref.EqualEps: unsupported %T", a))
}

// ExactWithin decides |x-y| <= eps in exact rational arithmetic over the float64 values.
func ExactWithin(x, y, eps float64) bool {
	a, b, e := new(big.Rat).SetFloat64(x), new(big.Rat).SetFloat64(y), new(big.Rat).SetFloat64(eps)
	d := new(big.Rat).Sub(a, b)
	d.Abs(d)
	return d.Cmp(e) <= 0
}

// subExact reports whether the float64 subtraction x-y is exact (no rounding), in which case a
// floating-point implementation of "within eps" has no excuse to differ from ExactWithin.
func subExact(x, y float64) bool {
	a, b := new(big.Rat).SetFloat64(x), new(big.Rat).SetFloat64(y)
	d := new(big.Rat).Sub(a, b)
	f := new(big.Rat).SetFloat64(x - y)
	return f != nil && d.Cmp(f) == 0
}

// NearBoundary reports whether some pair of corresponding numbers lies so close to
// |x-y| == eps that floating point makes "within eps" ambiguous; such cases take no verdict.
func NearBoundary(a, b V, eps float64) bool {
	switch x := a.(type) {
	case float64:
		if y, ok := b.(float64); ok {
			d := math.Abs(x - y)
			// close to the boundary AND the subtraction rounds: ambiguous, no verdict
			return math.Abs(d-eps) < 1e-9 && !subExact(x, y)
		}
	case []interface{}:
		if y, ok := b.([]interface{}); ok && len(x) == len(y) {
			for i := range x {
				if NearBoundary(x[i], y[i], eps) {
					return true
				}
			}
		}
	case map[string]interface{}:
		if y, ok := b.(map[string]interface{}); ok {
			for k, xv := range x {
				if yv, ok := y[k]; ok && NearBoundary(xv, yv, eps) {
					return true
				}
			}
		}
	}
	return false
}

// Clone deep-copies a value.
func Clone(v V) V {
	switch t := v.(type) {
	case []interface{}:
		out := make([]interface{}, len(t))
		for i, e := range t {
			out[i] = Clone(e)
		}
		return out
	case map[string]interface{}:
		out := make(map[string]interface{}, len(t))
		for k, e := range t {
			out[k] = Clone(e)
		}
		return out
	}
	return v
}

// HasNull reports whether v contains a JSON null anywhere.
func HasNull(v V) bool {
	switch t := v.(type) {
	case nil:
		return true
	case []interface{}:
		for _, e := range t {
			if HasNull(e) {
				return true
			}
		}
	case map[string]interface{}:
		for _, e := range t {
			if HasNull(e) {
				return true
			}
		}
	}
	return false
}

// Nodes counts the nodes of v.
func Nodes(v V) int {
	n := 1
	switch t := v.(type) {
	case []interface{}:
		for _, e := range t {
			n += Nodes(e)
		}
	case map[string]interface{}:
		for _, e := range t {
			n += Nodes(e)
		}
	}
	return n
}

// Kind names the JSON type of v.
func Kind(v V) string {
	switch v.(type) {
	case Void:
		return "void"
	case nil:
		return "null"
	case bool:
		return "bool"
	case float64:
		return "number"
	case string:
		return "string"
	case []interface{}:
		return "array"
	case map[string]interface{}:
		return "object"
	}
	return "?"
}

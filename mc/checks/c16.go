package checks

import (
	"encoding/json"
	"fmt"
	"os"
	"strings"
	"time"
	"unicode/utf8"

	jd "github.com/josephburnett/jd/v2"

	"verif/mc/cli"
	"verif/mc/engine"
	"verif/mc/impl"
	"verif/mc/ref"
)

var c16Nums = []V{0.0, 1.0, -1.0, 1.5, 0.1, 3.0, 1e21, 1e-7, 123456789012.0, 12345678901234567890.0, 9007199254740993.0, 1e300, 1e-300, 1.7976931348623157e308, 5e-324, -0.5, 100.0, 1e15, 1e16, 123456.789, 9223372036854775807.0, -9223372036854775808.0, 1e19, 18446744073709551616.0, 4294967296.0, 2147483648.0}

func c16Embed(x V) []V {
	out := []V{x, []interface{}{x}, []interface{}{x, x}, map[string]interface{}{"k": x}, map[string]interface{}{"k": []interface{}{x, map[string]interface{}{"j": x}}}}
	// YAML limits implicit (simple) keys to 1024 characters, so longer strings are values only
	if s, ok := x.(string); ok && len(s) <= 1000 {
		out = append(out, map[string]interface{}{s: 1.0}, map[string]interface{}{s: s}, map[string]interface{}{"k": map[string]interface{}{s: []interface{}{s}}}, []interface{}{map[string]interface{}{s: nil}})
	}
	return out
}

func c16Docs(tier string) *TextSet {
	return memoize("c16-"+tier, func() *TextSet {
		var out []V
		for _, s := range c02Strings(tier) {
			if utf8.ValidString(s) {
				out = append(out, c16Embed(s)...)
			}
		}
		for _, n := range c16Nums {
			out = append(out, c16Embed(n)...)
		}
		for _, w1 := range yamlWords {
			for _, w2 := range yamlWords {
				out = append(out, map[string]interface{}{w1: w2}, []interface{}{w1, w2})
			}
		}
		out = append(out, U(4).Vals...)
		out = append(out, []interface{}{}, map[string]interface{}{}, []interface{}{[]interface{}{}, map[string]interface{}{}}, map[string]interface{}{"a": map[string]interface{}{}, "b": []interface{}{}})
		return NewTextSet(out)
	})
}

func c16CLIDocs() []string {
	var out []string
	add := func(v V) { out = append(out, ref.JSON(v)) }
	for _, w := range yamlWords {
		add(map[string]interface{}{w: []interface{}{w, 1.0}})
	}
	for _, s := range c02Special {
		add([]interface{}{s, map[string]interface{}{"k" + s: s}})
	}
	for _, n := range c16Nums {
		add(map[string]interface{}{"n": n})
	}
	add([]interface{}{})
	add(map[string]interface{}{})
	add(nil)
	return out
}

func init() {
	engine.Register(&engine.Check{
		ID: "C16",
		Rule: "every one-rune string of the BMP, astral samples, two-rune strings over a special alphabet and YAML-ambiguous words as scalar document, array element, object value and object key, all pairs of ambiguous words as (key,value), a number alphabet and U_4: " +
			"(1) the document written by two independent YAML writers (flow, block) and read by ReadYamlString equals the document read from JSON and the reference value; (2) Yaml()/Json() of the node read back give an equal node; " +
			"(3) CLI -t json2yaml then -t yaml2json on a subset returns the input document; non-trivial = document contains a string or number",
		Bounds: func(tier string) map[string]interface{} {
			return map[string]interface{}{"documents": c16Docs(tier).Len(), "cli_documents": len(c16CLIDocs())}
		},
		Enum: func(tier string, e *engine.Emitter) {
			for _, t := range c16CLIDocs() {
				for _, bin := range []string{"jd-v2", "jd-top"} {
					e.Emit(engine.Case{Kind: "c16cli:" + bin, Leg: "cli/" + bin, A: t})
				}
			}
			// YAML scalars that hold a raw tab (legal inside quoted scalars) next to their two-space look-alikes
			for _, s := range []string{"a\tb", "a  b", "\tb", "a\t", "a \t b", "a\t\tb"} {
				want := ref.JSON(map[string]interface{}{"k": s})
				e.Emit(engine.Case{Kind: "c16t", Leg: "yaml-raw-tab", A: "k: \"" + s + "\"\n", B: want})
				e.Emit(engine.Case{Kind: "c16t", Leg: "yaml-raw-tab", A: "k: '" + s + "'\n", B: want})
				e.Emit(engine.Case{Kind: "c16t", Leg: "yaml-raw-tab", A: "- \"" + s + "\"\n- 1\n", B: ref.JSON([]interface{}{s, 1.0})})
			}
			for _, t := range c16NumberTexts() {
				for _, emb := range []string{"%s", "[%s]", `{"a": %s}`, `{"a": [%s, %s]}`} {
					e.Emit(engine.Case{Kind: "c16n", Leg: "json-number-texts", A: strings.ReplaceAll(emb, "%s", t)})
				}
			}
			d := c16Docs(tier)
			hk := engine.HS("c16")
			for i, t := range d.Texts {
				if e.Mine(engine.HashParts(hk, d.Hash[i], engine.HS(""), engine.HS(""), engine.HS(""))) {
					e.Do(engine.Case{Kind: "c16", Leg: "docs", A: t})
				}
			}
		},
		Run:      runC16,
		Required: func(string) []string { return []string{"doc/", "cli/"} },
		Assume:   []string{"the harness never feeds raw JSON text to the YAML reader (JSON is not a subset of YAML 1.1 for raw DEL / C1 characters); its two YAML writers escape what YAML 1.1 requires", "numbers are written in the shortest round-tripping decimal form"},
		Budget:   budget(7*time.Minute, 30*time.Minute),
	})
}

// c16NumberTexts: every text of at most 6 symbols over {- 0 1 9 . e E +} that is a JSON number, plus a ladder of
// magnitudes around int64 / uint64 / float64 limits. A JSON number is also a YAML plain scalar, so the same text
// (alone, in a flow sequence, in a flow mapping) is a document for both readers.
func c16NumberTexts() []string {
	var out []string
	allStrings([]string{"-", "0", "1", "9", ".", "e", "E", "+"}, 6, func(s string) {
		if s != "" && json.Valid([]byte(s)) {
			out = append(out, s)
		}
	})
	return append(out, "9223372036854775807", "9223372036854775808", "18446744073709551615", "18446744073709551616", "-9223372036854775808", "-9223372036854775809",
		"1e308", "1.7976931348623157e308", "4.9e-324", "1e-400", "123456789012345678901234567890", "100000000000000000000000", "9007199254740993", "4294967296", "2147483648", "-2147483649")
}

func runC16N(c *engine.Case) engine.Result {
	res := engine.Result{Nontrivial: true, Traces: 1}
	var fail string
	p := impl.Guard(func() {
		nj, err := jd.ReadJsonString(c.A)
		res.Transitions++
		if err != nil {
			res.Bucket = "number-text/not-a-json-document"
			return
		}
		res.Bucket = "number-text/both-readers"
		ny, err := jd.ReadYamlString(c.A)
		res.Transitions++
		if err != nil {
			fail = fmt.Sprintf("the text %q is read as JSON (%s) but ReadYamlString fails: %v", c.A, nj.Json(), err)
			return
		}
		if !ny.Equals(nj) || !nj.Equals(ny) {
			fail = fmt.Sprintf("the text %q read from YAML is %s, read from JSON it is %s", c.A, ny.Json(), nj.Json())
		}
	})
	if p != "" {
		fail = p
	}
	res.Violation = fail
	return res
}

func runC16(c *engine.Case) engine.Result {
	if strings.HasPrefix(c.Kind, "c16cli:") {
		return runC16CLI(c)
	}
	if c.Kind == "c16n" {
		return runC16N(c)
	}
	if c.Kind == "c16t" {
		res := engine.Result{Nontrivial: true, Traces: 1, Transitions: 1, Bucket: "doc/yaml-raw-tab"}
		p := impl.Guard(func() {
			n, err := jd.ReadYamlString(c.A)
			if err != nil {
				res.Violation = fmt.Sprintf("ReadYamlString fails on %q: %v", c.A, err)
				return
			}
			if got, err := impl.ToV(n); err != nil || !ref.Equal(got, ref.MustParse(c.B), ref.List) {
				res.Violation = fmt.Sprintf("the YAML text %q reads as %s, it says %s", c.A, n.Json(), c.B)
			}
		})
		if p != "" {
			res.Violation = p
		}
		return res
	}
	v := ref.MustParse(c.A)
	res := engine.Result{Nontrivial: true}
	var fail string
	p := impl.Guard(func() {
		nj, err := jd.ReadJsonString(c.A)
		res.Transitions++
		if err != nil {
			fail = "ReadJsonString failed: " + err.Error()
			return
		}
		// the same document with every character JSON allows raw left unescaped
		if raw := ref.JSONRaw(v); raw != c.A && utf8.ValidString(raw) {
			nr, err := jd.ReadJsonString(raw)
			res.Transitions++
			if err != nil {
				fail = fmt.Sprintf("ReadJsonString fails on the unescaped form %q: %v", raw, err)
				return
			}
			rv, err := impl.ToV(nr)
			if !nr.Equals(nj) || err != nil || !ref.Equal(rv, v, ref.List) {
				fail = fmt.Sprintf("the unescaped form %q reads as %s, the escaped form %q as %s", raw, nr.Json(), c.A, nj.Json())
				return
			}
		}
		for _, w := range []struct{ name, text string }{{"flow", ref.YAMLFlow(v)}, {"block", ref.YAMLBlock(v)}} {
			ny, err := jd.ReadYamlString(w.text)
			res.Transitions++
			res.Traces++
			if err != nil {
				fail = fmt.Sprintf("ReadYamlString failed on the %s form %q: %v", w.name, w.text, err)
				return
			}
			if !ny.Equals(nj) || !nj.Equals(ny) {
				fail = fmt.Sprintf("document read from YAML (%s form %q) = %s does not Equal the document read from JSON", w.name, w.text, ny.Json())
				return
			}
			yv, err := impl.ToV(ny)
			if err != nil || !ref.Equal(yv, v, ref.List) {
				fail = fmt.Sprintf("document read from YAML (%s form %q) renders as %s, not the original", w.name, w.text, ny.Json())
				return
			}
		}
		// the file-reading entry points read what the string-reading ones read
		// (for the documents on which the JSON and YAML readers can differ at all: characters that JSON writes
		// raw and YAML treats specially, numbers, words that YAML resolves)
		if raw := ref.JSONRaw(v); len(c.A) < 4000 && (raw != c.A || (strings.ContainsAny(c.A, "0123456789") && strings.ContainsAny(c.A, "eE.+-x_")) || strings.ContainsAny(c.A, "~<") || len(c.A) <= 4) {
			dir := cli.TempDir()
			defer os.RemoveAll(dir)
			jf := cli.WriteFile(dir, "doc.json", ref.JSONRaw(v))
			yf := cli.WriteFile(dir, "doc.yaml", ref.YAMLBlock(v))
			fj, err1 := jd.ReadJsonFile(jf)
			fy, err2 := jd.ReadYamlFile(yf)
			res.Transitions += 2
			if err1 != nil || err2 != nil {
				fail = fmt.Sprintf("ReadJsonFile / ReadYamlFile fail on files that ReadJsonString / ReadYamlString read: %v %v", err1, err2)
				return
			}
			if !fj.Equals(nj) || fj.Json() != nj.Json() || !fy.Equals(nj) {
				fail = fmt.Sprintf("ReadJsonFile gives %s and ReadYamlFile %s, the string readers %s", fj.Json(), fy.Json(), nj.Json())
				return
			}
		}
		// render and read back
		yt := nj.Yaml()
		res.Transitions++
		back, err := jd.ReadYamlString(yt)
		res.Traces++
		if err != nil {
			fail = fmt.Sprintf("ReadYamlString(n.Yaml()) failed on %q: %v", yt, err)
			return
		}
		if !back.Equals(nj) {
			fail = fmt.Sprintf("ReadYamlString(n.Yaml()) = %s is not the document; Yaml() was %q", back.Json(), yt)
			return
		}
		jt := nj.Json()
		back, err = jd.ReadJsonString(jt)
		res.Transitions += 2
		if err != nil || !back.Equals(nj) {
			fail = fmt.Sprintf("ReadJsonString(n.Json()) does not give the document back; Json() was %q", jt)
			return
		}
		jv, err := ref.Parse(jt)
		if err != nil || !ref.Equal(jv, v, ref.List) {
			fail = fmt.Sprintf("Json() = %q is not the original document", jt)
		}
	})
	if p != "" {
		fail = p
	}
	res.Bucket = "doc/" + ref.Kind(v)
	res.Violation = fail
	return res
}

func runC16CLI(c *engine.Case) engine.Result {
	bin := strings.TrimPrefix(c.Kind, "c16cli:")
	v := ref.MustParse(c.A)
	res := engine.Result{Nontrivial: true, Bucket: "cli/" + bin}
	dir := cli.TempDir()
	defer os.RemoveAll(dir)
	fj := cli.WriteFile(dir, "in.json", c.A)
	o1 := cli.Run(dir, cli.Bin(bin), []string{"-t", "json2yaml", fj}, nil)
	res.Transitions++
	// the same translation into an existing, longer file must leave exactly the same bytes
	stale := cli.WriteFile(dir, "out.yaml", strings.Repeat("stale: output from an earlier run\n", 100))
	o1f := cli.Run(dir, cli.Bin(bin), []string{"-t", "json2yaml", "-o", stale, fj}, nil)
	res.Transitions++
	if b, err := os.ReadFile(stale); o1.Exit == 0 && (o1f.Exit != 0 || err != nil || string(b) != o1.Stdout) {
		res.Violation = fmt.Sprintf("jd -t json2yaml -o FILE over an existing file leaves %q, stdout gives %q", string(b), o1.Stdout)
		return res
	}
	if o1.Exit != 0 {
		res.Violation = fmt.Sprintf("jd -t json2yaml exited %d: %s", o1.Exit, firstLine(o1.Stderr))
		return res
	}
	o2 := cli.Run(dir, cli.Bin(bin), []string{"-t", "yaml2json"}, &o1.Stdout)
	res.Transitions++
	res.Traces++
	if o2.Exit != 0 {
		res.Violation = fmt.Sprintf("jd -t yaml2json on the output of json2yaml (%q) exited %d: %s", o1.Stdout, o2.Exit, firstLine(o2.Stderr))
		return res
	}
	back, err := ref.Parse(o2.Stdout)
	if err != nil || !ref.Equal(back, v, ref.List) {
		res.Violation = fmt.Sprintf("json2yaml | yaml2json gives %q (via %q), not the input", o2.Stdout, o1.Stdout)
		return res
	}
	// the harness's own YAML through yaml2json
	y := ref.YAMLBlock(v)
	o3 := cli.Run(dir, cli.Bin(bin), []string{"-t", "yaml2json", cli.WriteFile(dir, "in.yaml", y)}, nil)
	res.Transitions++
	back, err = ref.Parse(o3.Stdout)
	if o3.Exit != 0 || err != nil || !ref.Equal(back, v, ref.List) {
		res.Violation = fmt.Sprintf("jd -t yaml2json on %q gives exit %d, %q", y, o3.Exit, o3.Stdout)
	}
	return res
}

package checks

import (
	"fmt"
	"os"
	"strings"
	"time"

	jd "github.com/josephburnett/jd/v2"

	"verif/mc/cli"
	"verif/mc/engine"
	"verif/mc/gen"
	"verif/mc/impl"
	"verif/mc/ref"
)

// c12Docs: targets and patch documents: objects nested to depth 3 with nulls and empty
// objects at every depth, arrays, scalars, null.
func c12Docs(tier string) *TextSet {
	return memoize("c12-"+tier, func() *TextSet {
		n := 5
		if tier == "patches6" {
			n = 6
		}
		docs := gen.Docs(n, 3, []V{1.0, "a", nil}, keys2)
		// deeper chains of empty objects / nulls that U_n cannot reach
		extra := []string{`{"a":{"b":{}}}`, `{"a":{"b":{"a":null}}}`, `{"a":{"b":{"a":1}}}`, `{"a":{"b":{"a":{}}}}`, `{"a":{"a":{"a":{"a":1}}}}`,
			`{"a":{"a":{"a":{"a":null}}}}`, `{"a":{"a":{"a":{}}}}`, `{"a":[{"b":null}]}`, `{"a":[null]}`, `[{}]`, `[null,{"a":null}]`, `{"a":{},"b":{}}`,
			`{"a":{"b":1,"a":2},"b":{"a":{}}}`, `{"":null}`, `{"":{}}`, `{"":{"":1}}`}
		for _, x := range extra {
			docs = append(docs, ref.MustParse(x))
		}
		// objects with several members below 3 and 5 keys (path slices with spare capacity)
		leafVals := []V{ref.Void{}, 1.0, nil, map[string]interface{}{}}
		for _, depth := range []int{3, 5} {
			for _, x := range leafVals {
				for _, y := range leafVals {
					for _, z := range []V{ref.Void{}, 2.0} {
						o := map[string]interface{}{}
						for k, v := range map[string]V{"x": x, "y": y, "z": z} {
							if !ref.IsVoid(v) {
								o[k] = v
							}
						}
						var v V = o
						for i := depth - 1; i >= 0; i-- {
							v = map[string]interface{}{string(rune('a' + i)): v}
						}
						docs = append(docs, v)
					}
				}
			}
		}
		for _, v := range Large().Vals {
			if _, ok := v.(map[string]interface{}); ok && len(ref.JSON(v)) < 5000 {
				docs = append(docs, v)
			}
		}
		// string values that a text-level pre-processing of the patch could mistake for something else
		for _, sv := range []string{"x /*", "*/ y", "see // below", "/* c */", "# c", "a\r\nb", "\ufffd", "\\u0000"} {
			docs = append(docs, map[string]interface{}{"a": sv, "b": nil, "c": "*/ y"}, map[string]interface{}{"n": map[string]interface{}{"s": sv}}, sv)
		}
		for _, depth := range []int{12, 40, 110} {
			for _, leaf := range []V{map[string]interface{}{"x": nil, "y": 1.0}, map[string]interface{}{"x": 1.0, "z": 2.0}, map[string]interface{}{}} {
				var v V = leaf
				for i := 0; i < depth; i++ {
					v = map[string]interface{}{"k": v}
				}
				docs = append(docs, v)
			}
		}
		return NewTextSet(docs)
	})
}

func init() {
	engine.Register(&engine.Check{
		ID: "C12",
		Rule: "all ordered pairs (target, patch) of the document universe with nulls and empty objects at every depth (objects, arrays, scalars, null at the root; void excluded): ReadMergeString(patch) applied to the target by the real Patch must give exactly " +
			"MergePatch(target, patch) of RFC 7386 section 2; non-trivial = patch is an object with at least one member",
		Bounds: func(tier string) map[string]interface{} {
			d := c12Docs(tier)
			m := map[string]interface{}{"documents": d.Len(), "ordered_pairs": d.Len() * d.Len()}
			if tier == "thorough" {
				m["extra_patch_documents_with_6_nodes"] = "all object documents with exactly 6 nodes, each against every target"
			}
			return m
		},
		Enum: func(tier string, e *engine.Emitter) {
			// the real processes: jd -p -f merge PATCH TARGET and jd -p -f merge PATCH < TARGET
			for _, bin := range []string{"jd-v2", "jd-top"} {
				for _, t := range c12CLITargets {
					for _, p := range c12CLIPatches {
						for _, how := range []string{"file", "stdin", "yaml-file", "in-place"} {
							e.Emit(engine.Case{Kind: "c12cli:" + bin, Leg: "cli/" + bin, A: t, B: p, X: how})
						}
					}
				}
			}
			d := c12Docs(tier)
			// two patches in a row on the live result of the first (start from non-initial states)
			small := thin(c12Docs(tier).Filter(func(v V) bool { return ref.Nodes(v) <= 3 }), 40)
			objs := thin(c12Docs(tier).Filter(func(v V) bool {
				_, ok := v.(map[string]interface{})
				return ok && ref.Nodes(v) <= 4
			}), 70)
			for _, t := range small.Texts {
				for _, p1 := range objs.Texts {
					for _, p2 := range objs.Texts {
						e.Emit(engine.Case{Kind: "c12seq", Leg: "two-patches", A: t, B: p1, C: p2})
					}
				}
			}
			pairs(e, "c12", "pairs", d, d)
			if tier == "thorough" {
				// deeper patch documents (6 nodes, objects only) against every target
				p6 := c12Docs("patches6").Filter(func(v V) bool {
					_, ok := v.(map[string]interface{})
					return ok && ref.Nodes(v) == 6
				})
				pairs(e, "c12", "pairs-patch6", d, p6)
			}
		},
		Run: runC12,
		Required: func(string) []string {
			return []string{"object-patch", "non-object-patch", "null-member", "empty-object-member"}
		},
		Assume: []string{"RFC 7386 section 2 pseudocode transcribed in /verif/mc/ref"},
		Budget: budget(7*time.Minute, 40*time.Minute),
	})
}

func hasEmptyObjectMember(v V, top bool) bool {
	switch t := v.(type) {
	case map[string]interface{}:
		if len(t) == 0 && !top {
			return true
		}
		for _, e := range t {
			if hasEmptyObjectMember(e, false) {
				return true
			}
		}
	}
	return false
}

var c12CLITargets = []string{`{"a":1,"b":{"c":2,"d":null},"e":[1,2]}`, `{"a":1,"big":"` + strings.Repeat("x", 70000) + `","c":3}`, `[1,2]`, `{}`, `"s"`,
	"{\r\n  \"a\": 1,\r\n  \"b\": {\"c\": 2}\r\n}\r\n", `{"pct":"100%","b":{"c":"%s"}}`}
var c12CLIPatches = []string{`{"a":null,"b":2}`, `{"b":{"c":null,"x":{"y":null,"z":1}}}`, `[3]`, `"t"`, `{"e":{"f":{}}}`, `{"big":null,"n":"` + strings.Repeat("p", 70000) + `"}`, `{"pct":"50%"}`,
	`{"a":null,"e":"\ud83d\ude00 \u007f\u0085\u2028"}`, `{"n":9223372036854775808,"m":-0,"k":1e21}`}

func runC12CLI(c *engine.Case) engine.Result {
	bin := strings.TrimPrefix(c.Kind, "c12cli:")
	res := engine.Result{Traces: 1, Transitions: 1, Nontrivial: true, Bucket: "cli/" + c.X}
	want := ref.MergePatch(ref.MustParse(c.A), ref.MustParse(c.B))
	dir := cli.TempDir()
	defer os.RemoveAll(dir)
	fp := cli.WriteFile(dir, "patch.json", c.B)
	args := []string{"-p", "-f", "merge", fp}
	if c.X == "yaml-file" {
		// -yaml changes how the documents are read and written, not how the RFC 7386 patch file is read
		args = []string{"-yaml", "-p", "-f", "merge", fp}
	}
	var stdin *string
	if c.X == "stdin" {
		stdin = &c.A
	} else {
		args = append(args, cli.WriteFile(dir, "target.json", c.A))
	}
	if c.X == "in-place" {
		// jd -p -f merge -o TARGET PATCH TARGET: the target is read before it is overwritten
		tf := args[len(args)-1]
		args = append([]string{"-p", "-f", "merge", "-o", tf}, fp, tf)
	}
	out := cli.Run(dir, cli.Bin(bin), args, stdin)
	if c.X == "in-place" && out.Exit == 0 {
		b, _ := os.ReadFile(args[len(args)-1])
		out.Stdout = string(b)
	}
	clip := func(s string) string {
		if len(s) > 200 {
			return s[:200] + "..."
		}
		return s
	}
	got, perr := ref.Parse(out.Stdout)
	if c.X == "yaml-file" && out.Exit == 0 {
		perr = fmt.Errorf("unreadable YAML output")
		impl.Guard(func() {
			if n, err := jd.ReadYamlString(out.Stdout); err == nil {
				got, perr = impl.ToV(n)
			}
		})
	}
	switch {
	case out.Timeout:
		res.Violation = "CLI did not terminate"
	case out.Exit != 0:
		res.Violation = fmt.Sprintf("jd -p -f merge (target from %s): exit status %d, stderr %q", c.X, out.Exit, clip(firstLine(out.Stderr)))
	case perr != nil || ref.IsVoid(got) || !ref.Equal(got, want, ref.List):
		res.Violation = fmt.Sprintf("jd -p -f merge (target from %s) printed %q, RFC 7386 gives %s", c.X, clip(out.Stdout), clip(ref.JSON(want)))
	}
	return res
}

func runC12Seq(c *engine.Case) engine.Result {
	tV, p1, p2 := ref.MustParse(c.A), ref.MustParse(c.B), ref.MustParse(c.C)
	res := engine.Result{Traces: 1, Bucket: "two-patches", Nontrivial: true}
	want := ref.MergePatch(ref.MergePatch(tV, p1), p2)
	var fail string
	p := impl.Guard(func() {
		d1, err1 := jd.ReadMergeString(c.B)
		d2, err2 := jd.ReadMergeString(c.C)
		if err1 != nil || err2 != nil {
			fail = fmt.Sprintf("ReadMergeString failed: %v %v", err1, err2)
			return
		}
		n := impl.Read(c.A)
		r1, err := n.Patch(d1)
		res.Transitions++
		if err != nil {
			fail = "first Patch failed: " + err.Error()
			return
		}
		r2, err := r1.Patch(d2) // on the live result, without re-reading it
		res.Transitions++
		if err != nil {
			fail = "second Patch (on the result of the first) failed: " + err.Error()
			return
		}
		got, perr := impl.ToV(r2)
		if perr != nil || ref.IsVoid(got) || !ref.Equal(got, want, ref.List) {
			fail = fmt.Sprintf("two merge patches in a row give %q, RFC 7386 gives %s", r2.Json(), ref.JSON(want))
		}
	})
	if p != "" {
		fail = "second patch on the live result of the first: " + p
	}
	// the pinned root-level behaviours (F-C12-1 / F-C12-2) are not this leg's subject
	if fail != "" && (c.B == "null" || c.C == "null" || c.B == "{}" || c.C == "{}") && p == "" {
		res.Bucket = "two-patches/no-verdict: root null or {} patch (F-C12-1/2)"
		return res
	}
	res.Violation = fail
	return res
}

func runC12(c *engine.Case) engine.Result {
	if c.Kind == "c12seq" {
		return runC12Seq(c)
	}
	if strings.HasPrefix(c.Kind, "c12cli:") {
		return runC12CLI(c)
	}
	tV, pV := ref.MustParse(c.A), ref.MustParse(c.B)
	res := engine.Result{Traces: 1}
	want := ref.MergePatch(tV, pV)
	var fail, rendered string
	p := impl.Guard(func() {
		d, err := jd.ReadMergeString(c.B)
		res.Transitions++
		if err != nil {
			fail = "ReadMergeString failed on a valid merge patch: " + err.Error()
			return
		}
		rendered = d.Render()
		out := impl.Patch(c.A, d)
		res.Transitions++
		if !out.OK {
			fail = "Patch failed: " + out.String()
			return
		}
		if ref.IsVoid(out.Val) || !ref.Equal(out.Val, want, ref.List) {
			fail = fmt.Sprintf("jd gives %q, RFC 7386 MergePatch(target, patch) = %s", ref.JSON(out.Val), ref.JSON(want))
		}
	})
	if p != "" {
		fail = p
	}
	if pm, ok := pV.(map[string]interface{}); ok {
		res.Bucket = "object-patch"
		res.Nontrivial = len(pm) > 0
		if ref.HasNull(pV) {
			res.Bucket += "/null-member"
		}
		if hasEmptyObjectMember(pV, true) {
			res.Bucket += "/empty-object-member"
		}
		if _, ok := tV.(map[string]interface{}); !ok {
			res.Bucket += "/non-object-target"
		}
	} else {
		res.Bucket = "non-object-patch/" + ref.Kind(pV)
		res.Nontrivial = true
	}
	if fail != "" {
		res.Violation = fail + " | diff read from the merge patch:\n" + rendered
	}
	return res
}

package checks

import (
	"fmt"
	"regexp"
	"strconv"
	"strings"
	"time"

	jd "github.com/josephburnett/jd/v2"

	"verif/mc/engine"
	"verif/mc/gen"
	"verif/mc/impl"
	"verif/mc/ref"
)

// group is one element of the supported JSON Patch subset: it edits one position of one array
// (or one object key / the root).
type group struct {
	Prefix  []string // pointer tokens of the container
	Last    string   // last token: decimal index, "-" or an object key; "" with Root=true
	Root    bool
	IsIndex bool
	E       int // index when IsIndex && Last != "-"
	Before  *V
	After   *V
	Rem     []V
	Add     []V // in emission order
	// displacement of the context tests from their consistent positions (hand-edited patches)
	BeforeShift, AfterShift int
}

func ptr(prefix []string, last string, root bool) string {
	var b strings.Builder
	for _, t := range prefix {
		b.WriteString("/" + ref.EscapeToken(t))
	}
	if !root {
		b.WriteString("/" + ref.EscapeToken(last))
	}
	return b.String()
}

func (g group) ops() []ref.Op {
	var out []ref.Op
	p := ptr(g.Prefix, g.Last, g.Root)
	if g.Before != nil {
		out = append(out, ref.Op{Op: "test", Path: ptr(g.Prefix, strconv.Itoa(g.E-1+g.BeforeShift), false), Value: *g.Before, HasValue: true})
	}
	if g.After != nil {
		out = append(out, ref.Op{Op: "test", Path: ptr(g.Prefix, strconv.Itoa(g.E+len(g.Rem)+g.AfterShift), false), Value: *g.After, HasValue: true})
	}
	for _, r := range g.Rem {
		out = append(out, ref.Op{Op: "test", Path: p, Value: r, HasValue: true}, ref.Op{Op: "remove", Path: p, Value: r, HasValue: true})
	}
	for _, a := range g.Add {
		out = append(out, ref.Op{Op: "add", Path: p, Value: a, HasValue: true})
	}
	return out
}

func opsJSON(ops []ref.Op) string {
	parts := make([]string, len(ops))
	for i, o := range ops {
		s := `{"op":` + ref.JSON(o.Op) + `,"path":` + ref.JSON(o.Path)
		if o.HasValue {
			s += `,"value":` + ref.JSON(o.Value)
		}
		parts[i] = s + "}"
	}
	return "[" + strings.Join(parts, ",") + "]"
}

func groupsJSON(gs []group) string {
	var ops []ref.Op
	for _, g := range gs {
		ops = append(ops, g.ops()...)
	}
	return opsJSON(ops)
}

// groupsOf mirrors RenderPatch on the model hunks (list-mode diff): one group per hunk.
func groupsOf(hs []ref.Hunk) ([]group, bool) {
	var out []group
	for _, h := range hs {
		g := group{}
		n := len(h.Path)
		for i, pe := range h.Path {
			var tok string
			switch pe.Kind {
			case "key":
				tok = pe.Key
			case "index":
				tok = strconv.Itoa(pe.Index)
			default:
				return nil, false
			}
			if i < n-1 {
				g.Prefix = append(g.Prefix, tok)
			} else {
				g.Last = tok
				if pe.Kind == "index" {
					g.IsIndex, g.E = true, pe.Index
				}
			}
		}
		g.Root = n == 0
		if len(h.Before) == 1 && !ref.IsVoid(h.Before[0]) {
			v := h.Before[0]
			g.Before = &v
		}
		if len(h.After) == 1 && !ref.IsVoid(h.After[0]) {
			v := h.After[0]
			g.After = &v
		}
		for _, r := range h.Remove {
			if !ref.IsVoid(r) {
				g.Rem = append(g.Rem, r)
			}
		}
		for i := len(h.Add) - 1; i >= 0; i-- {
			if !ref.IsVoid(h.Add[i]) {
				g.Add = append(g.Add, h.Add[i])
			}
		}
		out = append(out, g)
	}
	return out, true
}

func cloneGroups(gs []group) []group {
	out := make([]group, len(gs))
	for i, g := range gs {
		g.Rem = append([]V{}, g.Rem...)
		g.Add = append([]V{}, g.Add...)
		out[i] = g
	}
	return out
}

var c10Alt = []V{1.0, 2.0, "a"}

// variations returns all patches one subset-preserving deviation away from gs.
func variations(gs []group) [][]group {
	var out [][]group
	for gi, g := range gs {
		// change the value of a matching test/remove pair
		for j := range g.Rem {
			for _, alt := range c10Alt {
				if ref.Canon(alt, ref.List) == ref.Canon(g.Rem[j], ref.List) {
					continue
				}
				v := cloneGroups(gs)
				v[gi].Rem[j] = alt
				out = append(out, v)
			}
		}
		if g.IsIndex && g.Last != "-" {
			// shift all indices of the group
			for _, d := range []int{-2, -1, 1, 2} {
				if g.E+d < 0 || (g.Before != nil && g.E+d < 1) {
					continue
				}
				v := cloneGroups(gs)
				v[gi].E = g.E + d
				v[gi].Last = strconv.Itoa(g.E + d)
				out = append(out, v)
			}
			// move a context test off its position
			for _, d := range []int{-1, 1} {
				if g.Before != nil && g.E-1+d >= 0 {
					v := cloneGroups(gs)
					v[gi].BeforeShift = d
					out = append(out, v)
				}
				if g.After != nil && g.E+len(g.Rem)+d >= 0 {
					v := cloneGroups(gs)
					v[gi].AfterShift = d
					out = append(out, v)
				}
			}
			// drop a context test
			if g.Before != nil {
				v := cloneGroups(gs)
				v[gi].Before = nil
				out = append(out, v)
			}
			if g.After != nil {
				v := cloneGroups(gs)
				v[gi].After = nil
				out = append(out, v)
			}
		}
		// drop the group
		if len(gs) > 1 {
			v := append(cloneGroups(gs[:gi]), cloneGroups(gs[gi+1:])...)
			out = append(out, v)
		}
		// swap with the next group
		if gi+1 < len(gs) {
			v := cloneGroups(gs)
			v[gi], v[gi+1] = v[gi+1], v[gi]
			out = append(out, v)
		}
	}
	// adds of the trailing group as '-' appends (both orders)
	if n := len(gs); n > 0 {
		g := gs[n-1]
		if g.IsIndex && g.Last != "-" && len(g.Rem) == 0 && len(g.Add) > 0 {
			for _, rev := range []bool{false, true} {
				v := cloneGroups(gs)
				v[n-1].Last, v[n-1].Before, v[n-1].After = "-", nil, nil
				if rev {
					a := v[n-1].Add
					for i, j := 0, len(a)-1; i < j; i, j = i+1, j-1 {
						a[i], a[j] = a[j], a[i]
					}
				}
				out = append(out, v)
			}
		}
	}
	return out
}

// ---------------------------------------------------------------------------------------
// (B) complete small-scope enumeration of groups
// ---------------------------------------------------------------------------------------

func valueSeqs(n int, full bool) [][]V {
	if n == 0 {
		return [][]V{nil}
	}
	if !full {
		a := make([]V, n)
		b := make([]V, n)
		for i := range a {
			a[i] = 1.0
			b[i] = float64(1 + (i+1)%2)
		}
		return [][]V{a, b}
	}
	var out [][]V
	for _, tail := range valueSeqs(n-1, true) {
		for _, v := range []V{1.0, 2.0} {
			out = append(out, append([]V{v}, tail...))
		}
	}
	return out
}

func smallGroups(prefix []string, full bool) []group {
	var out []group
	one, two := V(1.0), V(2.0)
	ctx := []*V{nil, &one, &two}
	for e := 0; e <= 2; e++ {
		for _, b := range ctx {
			if b != nil && e == 0 {
				continue
			}
			for _, a := range ctx {
				for r := 0; r <= 2; r++ {
					for s := 0; s <= 2; s++ {
						if r+s == 0 {
							continue
						}
						for _, rv := range valueSeqs(r, full) {
							for _, av := range valueSeqs(s, full) {
								out = append(out, group{Prefix: prefix, Last: strconv.Itoa(e), IsIndex: true, E: e, Before: b, After: a, Rem: rv, Add: av})
							}
						}
					}
				}
			}
		}
	}
	for s := 1; s <= 2; s++ {
		for _, av := range valueSeqs(s, full) {
			out = append(out, group{Prefix: prefix, Last: "-", IsIndex: true, Add: av})
		}
	}
	return out
}

func c10SmallTargets(prefix []string) []string {
	var out []string
	for _, a := range gen.Arrays(3, []V{1.0, 2.0}) {
		var v V = a
		if len(prefix) > 0 {
			v = map[string]interface{}{prefix[0]: a}
		}
		out = append(out, ref.JSON(v))
	}
	return out
}

var c10RemoveIndex = regexp.MustCompile(`"op":"remove","path":"([^"]*)/([0-9]+)"`)
var c10AnyIndex = regexp.MustCompile(`"path":"([^"]*)/([0-9]+)"`)

func c10Spaces(tier string) []pairLeg {
	var legs []pairLeg
	add := func(name string, t *TextSet) { legs = append(legs, pairLeg{name, t, t}) }
	if tier == "thorough" {
		add("A3x6", Arr(3, "6"))
		add("A5x123", Arr(5, "123"))
		for _, p := range gen.Placements[1:] {
			add("A3x12@"+p.Name, Placed(Arr(3, "12"), p))
		}
		add("U3", noVoid(U(3)))
		add("hostile", thin(HostileDocs(), 120))
		add("deep", Deep(true))
		add("mixed", Mixed())
		add("hostile-arrays", HostileArrays())
	} else {
		add("A2x6", Arr(2, "6"))
		add("A3x123", Arr(3, "123"))
		for _, p := range gen.Placements[1:] {
			add("A2x12@"+p.Name, Placed(Arr(2, "12"), p))
		}
		add("U3", thin(noVoid(U(3)), 60))
		add("hostile", thin(HostileDocs(), 40))
		add("deep", Deep(false))
		add("mixed", thin(Mixed(), 50))
		add("hostile-arrays", thin(HostileArrays(), 60))
	}
	// own-output only (no deviations): documents beyond the small scope
	add("own:large", Large().Filter(func(v V) bool { return len(ref.JSON(v)) < 5000 }))
	add("own:hostile2", HostileDocs2())
	add("own:numbers", NumDocs())
	add("own:strings", StrDocs())
	return legs
}

func init() {
	engine.Register(&engine.Check{
		ID: "C10",
		Rule: "(A) for every (a,b) of the list-mode universes: p0=RenderPatch(a.Diff(b)) and every patch within one (thorough: two) subset-preserving deviations of it (changed test/remove value, group indices shifted by +-1,+-2, dropped group, dropped context test, adds turned into '-' appends, adjacent groups swapped), " +
			"each applied via ReadPatchString+Patch to a, b and every target one edit from a; (B) every patch of one or two groups (thorough: all values; three groups over a reduced alphabet) with e in {0,1,2,-}, r,s in 0..2, context tests present/absent, values in {1,2}, at the root and under a key, applied to every array of length <= 3 over {1,2}; " +
			"whenever jd reads and applies a patch, the independent RFC 6902 evaluator must succeed with the same result; non-trivial = jd accepted the patch on the target",
		Bounds: func(tier string) map[string]interface{} {
			m := map[string]interface{}{"deviation_bound": 1, "small_scope_groups_reduced": len(smallGroups(nil, false)), "small_scope_groups_full": len(smallGroups(nil, true))}
			if tier == "thorough" {
				m["deviation_bound"] = 2
			}
			for _, l := range c10Spaces(tier) {
				m[l.Name] = map[string]int{"documents": l.A.Len(), "ordered_pairs": l.A.Len() * l.A.Len()}
			}
			return m
		},
		Enum:     enumC10,
		Run:      runC10,
		Required: func(string) []string { return []string{"jd-applies", "jd-rejects-at-patch", "rfc-also-rejects"} },
		Assume:   []string{"supported subset = the group grammar of DESIGN.md section 6 (C10)", "RFC 6902 evaluator of /verif/mc/ref"},
		Budget:   budget(8*time.Minute, 45*time.Minute),
	})
}

func enumC10(tier string, e *engine.Emitter) {
	thorough := tier == "thorough"
	// (B) small scope
	for _, prefix := range [][]string{nil, {"k"}} {
		targets := c10SmallTargets(prefix)
		emit := func(leg string, gs []group) {
			text := groupsJSON(gs)
			for _, ct := range targets {
				e.Emit(engine.Case{Kind: "c10", Leg: leg, C: ct, X: text})
			}
		}
		full := smallGroups(prefix, true)
		red := smallGroups(prefix, false)
		for _, g := range full {
			emit("B/1-group", []group{g})
		}
		two := red
		if thorough {
			two = full
		}
		for _, g1 := range two {
			if e.Stopped() {
				return
			}
			for _, g2 := range two {
				emit("B/2-groups", []group{g1, g2})
			}
		}
		if thorough {
			var tiny []group
			for i, g := range red {
				if i%4 == 0 {
					tiny = append(tiny, g)
				}
			}
			for _, g1 := range tiny {
				for _, g2 := range tiny {
					for _, g3 := range tiny {
						emit("B/3-groups", []group{g1, g2, g3})
					}
				}
			}
		}
	}
	// (A) jd's own output and its variations
	hk := engine.HS("c10gen")
	for _, l := range c10Spaces(tier) {
		for i, at := range l.A.Texts {
			if e.Stopped() {
				return
			}
			for j, bt := range l.B.Texts {
				if !e.Mine(engine.HashParts(hk, l.A.Hash[i], l.B.Hash[j], 0, 0)) {
					continue
				}
				var hs []ref.Hunk
				var p0 string
				var rerr error
				impl.Guard(func() {
					d := impl.Read(at).Diff(impl.Read(bt))
					hs, _ = impl.Hunks(d)
					p0, rerr = impl.Read(at).Diff(impl.Read(bt)).RenderPatch()
				})
				if rerr != nil || len(hs) == 0 {
					continue
				}
				if inexpressible(hs) != "" {
					// jd rendered a patch although its own reader cannot express the path:
					// its own output must still read back and reproduce b
					e.Do(engine.Case{Kind: "c10own", Leg: l.Name + "/own-output", A: at, B: bt, C: at, X: p0})
					continue
				}
				if strings.HasPrefix(l.Name, "own:") {
					e.Do(engine.Case{Kind: "c10own", Leg: l.Name + "/own-output", A: at, B: bt, C: at, X: p0})
					continue
				}
				// text that is a patch followed or preceded by something else is not an RFC 6902 document
				for _, g := range []string{p0 + "]", p0 + ",", p0 + "\n" + p0, p0 + "{}", p0 + " x", "[]" + p0, p0[:len(p0)-1]} {
					e.Do(engine.Case{Kind: "c10", Leg: l.Name + "/text-garbage", A: at, B: bt, C: at, X: g})
				}
				// pointers that are not RFC 6901 pointers (no leading '/', a URI fragment), and array indices spelled
				// differently in the remove than in its test (leading zero, sign): numerically equal is not equal
				for _, g := range []string{strings.ReplaceAll(p0, `"path":"/`, `"path":"x/`), strings.ReplaceAll(p0, `"path":"/`, `"path":"#/`), strings.ReplaceAll(p0, `"path":"/`, `"path":"`),
					c10RemoveIndex.ReplaceAllString(p0, `"op":"remove","path":"${1}/0${2}"`), c10RemoveIndex.ReplaceAllString(p0, `"op":"remove","path":"${1}/+${2}"`),
					c10RemoveIndex.ReplaceAllString(p0, `"op":"remove","path":"${1}/-${2}"`), c10AnyIndex.ReplaceAllString(p0, `"path":"${1}/0${2}"`)} {
					if g != p0 {
						e.Do(engine.Case{Kind: "c10", Leg: l.Name + "/pointer-spelling", A: at, B: bt, C: at, X: g})
					}
				}
				targets := []string{at, bt}
				for _, ed := range gen.Edits(l.A.Vals[i], []V{1.0, 2.0}, []string{"k"}) {
					if !ref.IsVoid(ed) {
						targets = append(targets, ref.JSON(ed))
					}
				}
				e.Do(engine.Case{Kind: "c10own", Leg: l.Name + "/own-output", A: at, B: bt, C: at, X: p0})
				gs, ok := groupsOf(hs)
				if !ok {
					continue
				}
				seen := map[string]bool{}
				frontier := [][]group{gs}
				depth := 1
				if thorough && len(at) <= 10 {
					depth = 2
				}
				for d := 0; d < depth; d++ {
					var next [][]group
					for _, base := range frontier {
						for _, v := range variations(base) {
							text := groupsJSON(v)
							if seen[text] {
								continue
							}
							seen[text] = true
							next = append(next, v)
							for _, ct := range targets {
								e.Do(engine.Case{Kind: "c10", Leg: fmt.Sprintf("%s/deviation-%d", l.Name, d+1), A: at, B: bt, C: ct, X: text})
							}
						}
					}
					frontier = next
				}
			}
		}
	}
}

func runC10(c *engine.Case) engine.Result {
	res := engine.Result{}
	var fail, bucket string
	p := impl.Guard(func() {
		cV := ref.MustParse(c.C)
		d, err := jd.ReadPatchString(c.X)
		res.Transitions++
		if err != nil {
			bucket = "jd-rejects-at-read"
			if c.Kind == "c10own" {
				fail = "ReadPatchString rejects jd's own RenderPatch output: " + err.Error()
			}
			return
		}
		out := impl.Patch(c.C, d)
		res.Transitions++
		if out.Panic != "" {
			bucket = "jd-panics"
			fail = "Patch crashed on a diff read from a JSON Patch: " + out.Panic
			return
		}
		if !out.OK {
			bucket = "jd-rejects-at-patch"
			if c.Kind == "c10own" {
				fail = "jd's own RenderPatch output, read back, does not apply to a: " + out.Err
			}
			return
		}
		res.Traces++
		res.Nontrivial = true
		bucket = "jd-applies"
		if c.Kind == "c10own" {
			if !ref.Equal(out.Val, ref.MustParse(c.B), ref.List) {
				fail = "jd's own RenderPatch output, read back and applied to a, gives " + ref.JSON(out.Val) + ", not b"
				return
			}
		}
		want, rerr := ref.Eval6902(cV, c.X)
		if rerr != nil {
			fail = fmt.Sprintf("jd applied the patch (result %s) but RFC 6902 evaluation fails: %v", ref.JSON(out.Val), rerr)
			return
		}
		if !ref.Equal(want, out.Val, ref.List) {
			fail = fmt.Sprintf("jd gives %s, RFC 6902 evaluation gives %s", ref.JSON(out.Val), ref.JSON(want))
		}
	})
	if p != "" {
		fail = p
	}
	if bucket != "jd-applies" && fail == "" {
		// keep the RFC verdict in the histogram (jd may be stricter)
		if _, rerr := ref.Eval6902(ref.MustParse(c.C), c.X); rerr != nil {
			bucket += "/rfc-also-rejects"
		} else {
			bucket += "/rfc-would-apply"
		}
	}
	res.Bucket = bucket
	if fail != "" {
		res.Violation = fail + " | patch: " + c.X
	}
	return res
}

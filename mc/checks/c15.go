package checks

import (
	"encoding/json"
	"fmt"
	"os"
	"os/exec"
	"path/filepath"
	"strings"
	"time"

	jd "github.com/josephburnett/jd/v2"

	"verif/mc/cli"
	"verif/mc/engine"
	"verif/mc/impl"
	"verif/mc/ref"
)

// The read-only operations whose call histories are explored.
const c15Ops = "RCPMJYED"

var c15OpNames = map[byte]string{'R': "d.Render()", 'C': "d.Render(COLOR)", 'P': "d.RenderPatch()", 'M': "d.RenderMerge()", 'J': "a.Json();b.Json()",
	'Y': "a.Yaml();b.Yaml()", 'E': "a.Equals(b,o)", 'D': "a.Diff(b,o).Render()"}

func c15Histories(maxLen int) []string {
	out := []string{""}
	level := []string{""}
	for l := 1; l <= maxLen; l++ {
		var next []string
		for _, h := range level {
			for i := 0; i < len(c15Ops); i++ {
				next = append(next, h+string(c15Ops[i]))
			}
		}
		out = append(out, next...)
		level = next
	}
	return out
}

var c15Opts = []string{"none", "SET", "MULTISET", "MERGE", "SETKEYS:id"}

func c15Legs(tier, o string) []pairLeg {
	var legs []pairLeg
	add := func(name string, t *TextSet) {
		if strings.Contains(o, "MERGE") {
			t = nullFree(t)
		}
		legs = append(legs, pairLeg{name, t, t})
	}
	if o == "SETKEYS:id" {
		if tier == "thorough" {
			add("K@2", thin(Keyed(2, false), 60))
		} else {
			add("K", thin(Keyed(2, false), 60))
		}
		return legs
	}
	if tier == "thorough" {
		// histories of length 3 on the quick universes, length 2 on the larger ones
		add("U3s@3", thin(U(3), 70))
		add("A3x123@3", Arr(3, "123"))
		add("multikey@3", c15MultiKey())
		add("U3@2", U(3))
		add("A3x6@2", thin(Arr(3, "6"), 120))
	} else {
		add("U3", thin(U(3), 70))
		add("A3x123", Arr(3, "123"))
		add("multikey", c15MultiKey())
	}
	return legs
}

// c15MultiKey: objects with 3-4 keys (map iteration order matters) and nested arrays.
func c15MultiKey() *TextSet {
	return memoize("c15mk", func() *TextSet {
		texts := []string{
			`{"a":1,"b":2,"c":3}`, `{"a":1,"b":2,"c":4}`, `{"a":2,"b":3,"c":4,"d":5}`, `{"b":2,"c":3,"d":1}`, `{"a":{"x":1,"y":2,"z":3},"b":[1,2,3]}`,
			`{"a":{"x":2,"y":3,"z":4},"b":[1,2,3,4,5]}`, `{"a":{"x":1,"y":{"p":1,"q":2,"r":3}},"c":1}`, `{"a":{"y":{"p":2,"q":3,"r":4}},"c":2,"d":[1]}`,
			`[{"a":1,"b":2,"c":3},{"d":4,"e":5,"f":6}]`, `[{"a":2,"b":3,"c":4},{"d":4,"e":6,"f":7},1]`, `{}`, `{"e":1,"f":2,"g":3,"h":4}`, `[1]`, `[1,2,3]`, `[3,2,1,4]`,
			// keys on which a sloppy comparator ties or is not transitive: case variants, number-like, empty, non-ASCII
			`{"id":1,"Id":2,"ID":3}`, `{"id":10,"Id":20,"ID":30,"iD":40}`, `{"1":1,"01":2,"a":3}`, `{"2":1,"10":2,"1a":3,"":4}`, `{"é":1,"e":2,"E":3,"É":4}`, `{"a10":1,"a1a":2,"a2":3}`, `{"x-10":1,"x-1a":2,"x-2":3,"x-":4}`, `{"v1.10":1,"v1.9":2,"v1.1a":3}`,
			`{"rows":[{"10":1,"1a":2,"2":3,"":4},[{"2":1,"10":2,"1a":3}]]}`, `[[{"Id":1,"id":2,"ID":3}],{"k":{"2":1,"10":2,"1a":3}}]`,
		}
		var vs []V
		for _, t := range texts {
			vs = append(vs, ref.MustParse(t))
		}
		// objects with more than 8 keys: Go maps iterate differently above one bucket
		for _, v := range Large().Vals {
			if o, ok := v.(map[string]interface{}); ok && len(o) >= 8 && len(o) <= 11 {
				vs = append(vs, v)
			}
		}
		return NewTextSet(vs)
	})
}

// runRacer runs the -race build of cmd/racer (goroutines calling the read-only operations on unrelated and on
// shared values) and reports data races and outputs that differ from the sequential run.
func runRacer(which string) engine.Result {
	res := engine.Result{Traces: 1, Nontrivial: true, Bucket: "concurrency/" + which}
	bin := filepath.Join(cli.BinDir(), "jdmc-race")
	if _, err := os.Stat(bin); err != nil {
		res.Bucket = "concurrency/skipped: no -race build"
		res.Nontrivial = false
		return res
	}
	cmd := exec.Command(bin, which)
	cmd.Env = append(os.Environ(), "GORACE=halt_on_error=0 exitcode=66")
	var so, se strings.Builder
	cmd.Stdout, cmd.Stderr = &so, &se
	err := cmd.Run()
	res.Transitions = 1
	switch {
	case strings.Contains(se.String(), "DATA RACE"):
		// name the first racing function, without addresses or goroutine numbers
		where := ""
		for _, l := range strings.Split(se.String(), "\n") {
			l = strings.TrimSpace(l)
			if strings.HasPrefix(l, "github.com/josephburnett/jd") {
				where = l
				if i := strings.Index(where, "("); i > 0 {
					where = where[:i]
				}
				break
			}
		}
		res.Violation = "the race detector reports a data race between concurrent calls of read-only operations (first frame in jd: " + where + ")"
		res.Sig = "data race"
	case err != nil:
		out := so.String()
		if len(out) > 600 {
			out = out[:600] + "..."
		}
		res.Violation = "concurrent calls give outputs that differ from the sequential ones: " + out
		res.Sig = "concurrent output differs"
	}
	return res
}

func setHostileEnv(on bool) {
	for _, kv := range cli.HostileEnv {
		k := kv[:strings.Index(kv, "=")]
		if k == "PATH" || k == "HOME" {
			continue
		}
		if on {
			os.Setenv(k, kv[len(k)+1:])
		} else {
			os.Unsetenv(k)
		}
	}
}

type c15ND struct{ two, three []string }

// c15NativeDiffs: all sequences of one or two hunks (strict or merge) and all triples of merge hunks over
// 4 paths x 5 added values, as native diff text.
func c15NativeDiffs() c15ND {
	paths := []string{`[]`, `["a"]`, `["a","c"]`, `["b"]`}
	adds := []string{`1`, `{}`, `{"b":1}`, `[1]`, `{"b":{"d":1}}`}
	var strict, merge []string
	for _, p := range paths {
		for _, a := range adds {
			strict = append(strict, "@ "+p+"\n+ "+a+"\n")
			merge = append(merge, "^ {\"Merge\":true}\n@ "+p+"\n+ "+a+"\n")
		}
	}
	var out c15ND
	all := append(append([]string{}, merge...), strict...)
	for _, h1 := range all {
		out.two = append(out.two, h1)
		for _, h2 := range all {
			if strings.HasPrefix(h1, "^") && !strings.HasPrefix(h2, "^") {
				h2 = "^ {\"Merge\":false}\n" + h2
			}
			out.two = append(out.two, h1+h2)
		}
	}
	for _, h1 := range merge {
		for _, h2 := range merge {
			for _, h3 := range merge {
				out.three = append(out.three, h1+h2+h3)
			}
		}
	}
	return out
}

var c15MergePatches = []string{`{"a":1,"b":2,"c":3}`, `{"a":null,"b":{"x":1,"y":null,"z":{}},"c":[1]}`, `{"a":{"b":{"c":1,"d":2,"e":null}},"f":1}`, `{}`, `1`, `{"a":{}}`,
	`{"a":1,"b":null,"c":2,"d":null,"e":3}`, `[1,2]`, `{"x":{"y":{"z":null}},"a":null}`,
	`{"2":"b","10":"c","1a":"d"}`, `{"1":"x","01":"y","a":"z"}`, `{"id":1,"Id":2,"ID":3}`, `{"":1," ":2,"é":3,"E":4,"e":5}`}

var c15JSONPatches = []string{`[]`, `[{"op":"add","path":"/a","value":1}]`, `[{"op":"test","path":"/a","value":1},{"op":"remove","path":"/a","value":1},{"op":"add","path":"/a","value":2}]`,
	`[{"op":"add","path":"/0","value":1},{"op":"add","path":"/0","value":2},{"op":"add","path":"/0","value":3}]`,
	`[{"op":"test","path":"/0","value":1},{"op":"add","path":"/1","value":2},{"op":"add","path":"/1","value":3}]`,
	`[{"op":"add","path":"/-","value":1},{"op":"add","path":"/-","value":2}]`,
	`[{"op":"test","path":"/1","value":2},{"op":"test","path":"/0","value":1},{"op":"remove","path":"/0","value":1},{"op":"add","path":"/0","value":5},{"op":"add","path":"/0","value":6}]`}

// c15IsoWorlds: (a,b) pairs for the isolation leg: the outputs for one pair must not depend on
// which other pairs the same process handled before (package-level caches, memo tables).
var c15IsoWorlds = [][2]string{{`"ab"`, `"ba"`}, {`"ba"`, `"ab"`}, {`"abc"`, `"cab"`}, {`"cab"`, `"abc"`}, {`["ab"]`, `["ba"]`}, {`["ba"]`, `["ab"]`},
	{`{"k":"xyx"}`, `{"k":"yxy"}`}, {`{"k":"yxy"}`, `{"k":"xyx"}`}, {`[1,2]`, `[2,1]`}, {`[2,1]`, `[1,2]`}, {`{"a":1,"b":2}`, `{"b":1,"a":2}`}, {`{"b":1,"a":2}`, `{"a":1,"b":2}`},
	{`[[1,2],[2,1]]`, `[[2,1],[1,2]]`}, {`[[2,1],[1,2]]`, `[[1,2],[2,1]]`}}

var c15Targets = []string{`{"a":1}`, `{"a":{"b":1},"b":2,"c":{"x":1}}`, `[1]`, `[1,2]`, `[]`, `{}`, `1`, `{"a":1,"b":2,"c":3,"d":4,"e":5}`}

func init() {
	engine.Register(&engine.Check{
		ID:        "C15",
		Companion: "C15ORD",
		Unstable:  true,
		Rule: "call-history exploration: for every (a,b,o) of the universes (plus diffs read from merge patches and from JSON Patch documents against a target set) and every history of read-only API calls of length <= 2 (thorough: 3) over " +
			"{Render, Render(COLOR), RenderPatch, RenderMerge, Json, Yaml, Equals, Diff-again}: after every call the memory snapshot of (a,b,d) - public DiffElement fields with the Go type and Json() of every node - must equal the initial snapshot, " +
			"every output must equal the output of the same call on fresh values, and the final a.Patch(d) must give the history-free result; determinism leg: 40 in-process repetitions of every output on fresh values must be identical; isolation leg: for all ordered pairs of 14 worlds (incl. each pair and its reverse) the outputs computed after handling the other world must equal those of a fresh process; map-order leg (build with controlled map iteration, DESIGN.md section 5): every output under every single (thorough: double) deviation of a map range from sorted order must equal the sorted-order output; non-trivial = history of length >= 2 on a non-empty diff, or an execution with a deviating map order",
		Bounds: func(tier string) map[string]interface{} {
			L := 2
			if tier == "thorough" {
				L = 3
			}
			m := map[string]interface{}{"history_length": L, "histories": len(c15Histories(L)), "operations": c15OpNames, "determinism_repetitions": 40,
				"merge_patches": len(c15MergePatches), "json_patches": len(c15JSONPatches), "targets": len(c15Targets)}
			for _, o := range c15Opts {
				for _, l := range c15Legs(tier, o) {
					m[l.Name+"/"+o] = map[string]int{"documents": l.A.Len(), "ordered_pairs": l.A.Len() * l.A.Len()}
				}
			}
			return m
		},
		Enum: enumC15,
		Run:  runC15,
		Required: func(string) []string {
			return []string{"history/len=2", "history/len=1", "determinism", "isolation/none"}
		},
		Assume: []string{"the snapshot (public fields, dynamic types, Json() of every node) captures the state the listed calls can observe; histories up to the bound are additionally run without state de-duplication", "map iteration order is exercised by in-process repetition (free-running); see DESIGN.md section 5"},
		Budget: budget(8*time.Minute, 45*time.Minute),
	})
}

func enumC15(tier string, e *engine.Emitter) {
	for _, o := range []string{"none", "SET", "MERGE"} {
		for _, w1 := range c15IsoWorlds {
			for _, w2 := range c15IsoWorlds {
				e.Emit(engine.Case{Kind: "c15iso:" + o, Leg: "isolation/" + o, A: w2[0], B: w2[1], C: w1[0], X: w1[1]})
			}
		}
	}
	for _, o := range []string{"none", "SET", "MULTISET"} {
		h := Huge()
		for _, at := range h.Texts {
			for _, bt := range h.Texts {
				e.Emit(engine.Case{Kind: "c15det:" + o, Leg: "determinism/huge/" + o, A: at, B: bt})
			}
		}
	}
	L := 2
	if tier == "thorough" {
		L = 3
	}
	hist := c15Histories(L)
	for _, mp := range c15MergePatches {
		for _, t := range c15Targets {
			e.Emit(engine.Case{Kind: "c15det:merge-patch", Leg: "determinism/merge-patch", A: t, B: mp})
			for _, h := range hist {
				e.Emit(engine.Case{Kind: "c15:merge-patch", Leg: "history/merge-patch", A: t, B: mp, X: h})
			}
		}
	}
	// free-running pass with the race detector: the read-only operations from several goroutines at once
	e.Emit(engine.Case{Kind: "c15race", Leg: "concurrency/race-detector", A: "v2"})
	// YAML mappings whose keys are not strings, or are strings that print like them: whatever the reader does with
	// them (reject, convert), it must do the same on every call
	yl := []string{"1: a\n", "\"1\": b\n", "1.0: c\n", "true: d\n", "\"true\": e\n", "~: f\n", "\"\": g\n", "a: h\n", "0x1: i\n", "k:\n  1: x\n  \"1\": y\n", "? [1]\n: j\n", "01: k\n"}
	var recY func(prefix string, n int)
	recY = func(prefix string, n int) {
		if n > 0 {
			e.Emit(engine.Case{Kind: "c15yaml", Leg: "determinism/yaml-mappings", A: prefix})
		}
		if n == 3 {
			return
		}
		for _, l := range yl {
			recY(prefix+l, n+1)
		}
	}
	recY("", 0)
	// hand-written hunk sequences (as text): a later hunk may write below what an earlier hunk added
	nd := c15NativeDiffs()
	for _, t := range []string{`{}`, `{"a":{"b":0},"b":1}`} {
		for _, d := range nd.two {
			e.Emit(engine.Case{Kind: "c15det:native-diff", Leg: "determinism/native-diff", A: t, B: d})
			for _, h := range c15Histories(2) {
				e.Emit(engine.Case{Kind: "c15:native-diff", Leg: "history/native-diff", A: t, B: d, X: h})
			}
		}
	}
	for _, d := range nd.three {
		for _, h := range c15Histories(1) {
			e.Emit(engine.Case{Kind: "c15:native-diff", Leg: "history/native-diff-3", A: `{}`, B: d, X: h})
		}
	}
	for _, jp := range c15JSONPatches {
		for _, t := range c15Targets {
			e.Emit(engine.Case{Kind: "c15det:json-patch", Leg: "determinism/json-patch", A: t, B: jp})
			for _, h := range hist {
				e.Emit(engine.Case{Kind: "c15:json-patch", Leg: "history/json-patch", A: t, B: jp, X: h})
			}
		}
	}
	for _, o := range c15Opts {
		kind := "c15:" + o
		hk := engine.HS(kind)
		for _, l := range c15Legs(tier, o) {
			for i, at := range l.A.Texts {
				if e.Stopped() {
					return
				}
				for j, bt := range l.B.Texts {
					if !e.Mine(engine.HashParts(hk, l.A.Hash[i], l.B.Hash[j], 0, 0)) {
						continue
					}
					e.Do(engine.Case{Kind: "c15det:" + o, Leg: "determinism/" + o, A: at, B: bt})
					hs := hist
					if strings.HasSuffix(l.Name, "@2") {
						hs = c15Histories(2)
					}
					for _, h := range hs {
						e.Do(engine.Case{Kind: kind, Leg: "history/" + l.Name + "/" + o, A: at, B: bt, X: h})
					}
				}
			}
		}
	}
}

type c15World struct {
	a, b jd.JsonNode
	d    jd.Diff
	opts []jd.Option
}

func c15Build(kind, A, B string) (*c15World, error) {
	w := &c15World{}
	switch kind {
	case "merge-patch":
		w.a = impl.Read(A)
		w.b = impl.Read(B)
		d, err := jd.ReadMergeString(B)
		if err != nil {
			return nil, err
		}
		w.d = d
	case "native-diff":
		w.a = impl.Read(A)
		w.b = impl.Read(A)
		d, err := jd.ReadDiffString(B)
		if err != nil {
			return nil, err
		}
		w.d = d
	case "json-patch":
		w.a = impl.Read(A)
		w.b = impl.Read(B)
		d, err := jd.ReadPatchString(B)
		if err != nil {
			return nil, err
		}
		w.d = d
	default:
		o := impl.Options(kind)
		w.opts = o.Opts
		w.a, w.b = impl.Read(A), impl.Read(B)
		w.d = w.a.Diff(w.b, w.opts...)
	}
	return w, nil
}

func nodeDump(n jd.JsonNode) string {
	if n == nil {
		return "<nil>"
	}
	return fmt.Sprintf("%T:%s", n, n.Json())
}

func (w *c15World) snapshot() string {
	var b strings.Builder
	b.WriteString("a=" + nodeDump(w.a) + "\nb=" + nodeDump(w.b) + "\n")
	for i, e := range w.d {
		fmt.Fprintf(&b, "hunk %d merge=%v path=", i, e.Metadata.Merge)
		for _, pe := range e.Path {
			switch t := pe.(type) {
			case jd.PathSetKeys:
				fmt.Fprintf(&b, "%T%s,", pe, jd.Path{t}.JsonNode().Json())
			case jd.PathMultisetKeys:
				fmt.Fprintf(&b, "%T%s,", pe, jd.Path{t}.JsonNode().Json())
			default:
				fmt.Fprintf(&b, "%T(%v),", pe, pe)
			}
		}
		for name, list := range map[string][]jd.JsonNode{"before": e.Before, "remove": e.Remove, "add": e.Add, "after": e.After} {
			_ = name
			_ = list
		}
		dump := func(name string, list []jd.JsonNode) {
			fmt.Fprintf(&b, " %s[%d]=", name, len(list))
			for _, n := range list {
				b.WriteString(nodeDump(n) + ";")
			}
		}
		dump("before", e.Before)
		dump("remove", e.Remove)
		dump("add", e.Add)
		dump("after", e.After)
		b.WriteString("\n")
	}
	return b.String()
}

func (w *c15World) op(o byte) string {
	switch o {
	case 'R':
		return w.d.Render()
	case 'C':
		return w.d.Render(jd.COLOR)
	case 'P':
		s, err := w.d.RenderPatch()
		if err != nil {
			return "error: " + err.Error()
		}
		return s
	case 'M':
		s, err := w.d.RenderMerge()
		if err != nil {
			return "error: " + err.Error()
		}
		return s
	case 'J':
		return w.a.Json() + "\x00" + w.b.Json()
	case 'Y':
		return w.a.Yaml() + "\x00" + w.b.Yaml()
	case 'E':
		return fmt.Sprint(w.a.Equals(w.b, w.opts...))
	case 'D':
		return w.a.Diff(w.b, w.opts...).Render()
	}
	panic("bad op")
}

func (w *c15World) patch() string {
	r, err := w.a.Patch(w.d)
	if err != nil {
		return "error: " + err.Error()
	}
	return "ok: " + r.Json()
}

func runC15(c *engine.Case) engine.Result {
	res := engine.Result{}
	var fail string
	kind := optOf(c.Kind)
	det := strings.HasPrefix(c.Kind, "c15det:")
	if strings.HasPrefix(c.Kind, "c15iso:") {
		return runC15Iso(c, kind)
	}
	if c.Kind == "c15race" {
		return runRacer(c.A)
	}
	if c.Kind == "c15yaml" {
		res.Bucket = "determinism/yaml/rejected"
		first := ""
		p := impl.Guard(func() {
			for rep := 0; rep < 30; rep++ {
				out := ""
				n, err := jd.ReadYamlString(c.A)
				res.Transitions++
				if err != nil {
					out = "error" // which offending key an error names may follow map order; only accept / reject is compared
				} else {
					res.Bucket = "determinism/yaml/accepted"
					res.Nontrivial = true
					out = n.Json() + "\n" + n.Yaml()
				}
				if rep == 0 {
					first = out
				} else if out != first {
					res.Violation = fmt.Sprintf("reading the same YAML text twice gives different documents: %q then (repetition %d) %q", first, rep, out)
					res.Sig = "non-deterministic YAML reading"
					return
				}
			}
		})
		if p != "" {
			res.Violation = p
		}
		res.Traces = 1
		return res
	}
	p := impl.Guard(func() {
		if det {
			res.Bucket = "determinism/" + kind
			var first []string
			defer setHostileEnv(false)
			for rep := 0; rep < 40; rep++ {
				// every other repetition runs with NO_COLOR, TERM=dumb and a Turkish locale in the process
				// environment: the outputs are a function of the inputs, not of the environment
				setHostileEnv(rep%2 == 1)
				w, err := c15Build(kind, c.A, c.B)
				if err != nil {
					res.Bucket = "determinism/unreadable"
					return
				}
				var outs []string
				for i := 0; i < len(c15Ops); i++ {
					ww, _ := c15Build(kind, c.A, c.B)
					outs = append(outs, ww.op(c15Ops[i]))
					res.Transitions++
				}
				outs = append(outs, w.patch())
				res.Transitions++
				if rep == 0 {
					first = outs
					continue
				}
				for i := range outs {
					if outs[i] != first[i] {
						name := "a.Patch(d)"
						if i < len(c15Ops) {
							name = c15OpNames[c15Ops[i]]
						}
						fail = fmt.Sprintf("output of %s is not deterministic: repetition 0 gave %q, repetition %d gave %q", name, first[i], rep, outs[i])
						res.Sig = "non-deterministic output of " + name
						return
					}
				}
			}
			res.Nontrivial = strings.Contains(c.A+c.B, ":")
			return
		}
		res.Bucket = fmt.Sprintf("history/len=%d/%s", len(c.X), kind)
		// outputs of every operation on fresh values
		fresh := map[byte]string{}
		for i := 0; i < len(c.X); i++ {
			if _, ok := fresh[c.X[i]]; !ok {
				w, err := c15Build(kind, c.A, c.B)
				if err != nil {
					res.Bucket = "history/unreadable"
					return
				}
				fresh[c.X[i]] = w.op(c.X[i])
			}
		}
		w0, err := c15Build(kind, c.A, c.B)
		if err != nil {
			res.Bucket = "history/unreadable"
			return
		}
		wantPatch := w0.patch()
		w, _ := c15Build(kind, c.A, c.B)
		s0 := w.snapshot()
		res.Nontrivial = len(c.X) >= 2 && len(w.d) > 0
		for i := 0; i < len(c.X); i++ {
			out := w.op(c.X[i])
			res.Transitions++
			res.Traces++
			if out != fresh[c.X[i]] {
				fail = fmt.Sprintf("after the calls %s, %s returns %q; on fresh values it returns %q", historyNames(c.X[:i]), c15OpNames[c.X[i]], out, fresh[c.X[i]])
				res.Sig = fmt.Sprintf("call %d (%s) output differs from the fresh-value output", i+1, c15OpNames[c.X[i]])
				return
			}
			if s := w.snapshot(); s != s0 {
				fail = fmt.Sprintf("%s (call %d of history %s) changed its arguments:\n--- before\n%s--- after\n%s", c15OpNames[c.X[i]], i+1, historyNames(c.X), s0, s)
				res.Sig = fmt.Sprintf("call %d (%s) changed its arguments", i+1, c15OpNames[c.X[i]])
				return
			}
		}
		got := w.patch()
		res.Transitions++
		if got != wantPatch {
			fail = fmt.Sprintf("after the calls %s, a.Patch(d) gives %q; without them %q", historyNames(c.X), got, wantPatch)
			res.Sig = "a.Patch(d) after the history differs from the history-free result"
		}
	})
	if p != "" {
		fail = p
	}
	res.Violation = fail
	return res
}

func historyNames(h string) string {
	if h == "" {
		return "(none)"
	}
	parts := make([]string, len(h))
	for i := 0; i < len(h); i++ {
		parts[i] = c15OpNames[h[i]]
	}
	return strings.Join(parts, ", ")
}

// OpsOutputs computes every observable output for one world; `jdmc ops` prints it from a
// fresh process.
func OpsOutputs(kind, A, B string) ([]string, error) {
	var outs []string
	for i := 0; i < len(c15Ops); i++ {
		w, err := c15Build(kind, A, B)
		if err != nil {
			return nil, err
		}
		outs = append(outs, w.op(c15Ops[i]))
	}
	w, err := c15Build(kind, A, B)
	if err != nil {
		return nil, err
	}
	return append(outs, w.patch()), nil
}

// runC15Iso: outputs for (A,B) computed in this process right after the operations on another
// pair (C,X) must equal the outputs a fresh process computes for (A,B) alone.
func runC15Iso(c *engine.Case, kind string) engine.Result {
	res := engine.Result{Bucket: "isolation/" + kind, Nontrivial: true}
	var here []string
	p := impl.Guard(func() {
		OpsOutputs(kind, c.C, c.X) // the other pair first
		here, _ = OpsOutputs(kind, c.A, c.B)
		res.Transitions += 2 * (len(c15Ops) + 1)
	})
	if p != "" {
		res.Violation = p
		return res
	}
	self, err := os.Executable()
	if err != nil {
		res.Bucket = "isolation/no-executable"
		return res
	}
	out, err := exec.Command(self, "ops", kind, c.A, c.B).Output()
	if err != nil {
		res.Bucket = "isolation/subprocess-failed"
		return res
	}
	var fresh []string
	if json.Unmarshal(out, &fresh) != nil || len(fresh) != len(here) {
		res.Bucket = "isolation/subprocess-failed"
		return res
	}
	res.Traces++
	for i := range here {
		if here[i] != fresh[i] {
			name := "a.Patch(d)"
			if i < len(c15Ops) {
				name = c15OpNames[c15Ops[i]]
			}
			res.Violation = fmt.Sprintf("output of %s for (%s, %s) depends on what the process did before: after handling (%s, %s) it is %q, in a fresh process it is %q", name, c.A, c.B, c.C, c.X, here[i], fresh[i])
			res.Sig = "output of " + name + " depends on earlier calls on other values"
			return res
		}
	}
	return res
}

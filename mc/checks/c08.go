package checks

import (
	"fmt"
	jd "github.com/josephburnett/jd/v2"
	"strconv"
	"strings"
	"time"

	"verif/mc/engine"
	"verif/mc/gen"
	"verif/mc/impl"
	"verif/mc/ref"
)

var c08Opts = []string{"SET", "MULTISET", "SETKEYS:id", "SETKEYS:id,t"}

func c08Legs(tier, o string) []pairLeg {
	var legs []pairLeg
	add := func(name string, t *TextSet) { legs = append(legs, pairLeg{name, t, t}) }
	thorough := tier == "thorough"
	if strings.HasPrefix(o, "SETKEYS:") {
		two := o == "SETKEYS:id,t"
		k := Keyed(2, two)
		if thorough {
			k = thin(k, 260)
		} else {
			k = thin(k, 110)
		}
		add("K", k)
		if two {
			add("K2same", Keyed2Same())
		} else {
			// ids that print alike (1 / "1", true / "true"), structured ids; two members each
			two := KeyedStr().Filter(func(v V) bool { return len(v.([]interface{})) == 2 })
			alike := func(v V) bool { // both members' ids print the same: 1 / "1", true / "true"
				m := v.([]interface{})
				a, b := m[0].(map[string]interface{})["id"], m[1].(map[string]interface{})["id"]
				return fmt.Sprint(a) == fmt.Sprint(b)
			}
			add("Kalike", two.Filter(alike))
			add("Kstr", thin(two.Filter(func(v V) bool { return !alike(v) }), 70))
		}
		keys := []string{"id"}
		if two {
			keys = []string{"id", "t"}
		}
		add("large", Large().Filter(func(v V) bool {
			a, ok := v.([]interface{})
			if !ok || len(a) < 19 || !membersCarryKeys(v, keys) {
				return false
			}
			_, isObj := a[0].(map[string]interface{})
			return isObj
		}))
		return legs
	}
	add("large", Large().Filter(func(v V) bool {
		a, ok := v.([]interface{})
		return ok && len(a) >= 9 && len(a) <= 18 && ref.Nodes(v) <= 20
	}))
	// bags of 19..75 scalars (duplicates included), complete triples over hash-alias members
	add("large-bags", Large().Filter(func(v V) bool {
		a, ok := v.([]interface{})
		return ok && len(a) >= 33 && len(a) <= 75 && ref.Nodes(v) == len(a)+1
	}))
	add("Ualias", AliasArrays())
	if thorough {
		add("A3x6", Arr(3, "6"))
		add("A4x6", thin(Arr(4, "6"), 400))
		add("A3x6@key", Placed(Arr(3, "6"), gen.Placements[1]))
		add("A3x6@deep", Placed(Arr(3, "6"), gen.Placements[3]))
		add("A4x123", Arr(4, "123"))
		add("U4perm", thin(noVoid(UPerm(4)), 500))
	} else {
		add("A3x6", Arr(3, "6"))
		add("A2x6@key", Placed(Arr(2, "6"), gen.Placements[1]))
		add("A2x6@deep", Placed(Arr(2, "6"), gen.Placements[3]))
		add("A4x12", Arr(4, "12"))
		add("U3perm", thin(noVoid(UPerm(3)), 250))
	}
	return legs
}

// AliasArrays: arrays (length <= 2) over members whose content hashes coincide (string bytes == IEEE bytes of a number).
func AliasArrays() *TextSet {
	return memoize("alias-arrays", func() *TextSet {
		fA, _ := floatWithLEBytes([8]byte{'A', 'A', 'A', 'A', 'A', 'A', 'A', 'A'})
		alpha := []V{fA, "AAAAAAAA", 0.0, "\x00\x00\x00\x00\x00\x00\x00\x00", 1.0}
		return NewTextSet(gen.Arrays(2, alpha))
	})
}

// bagTargets: a, b, a reversed, and per distinct member of a: one more copy, one copy fewer, replaced by 1.
func bagTargets(a, b []interface{}) []string {
	seen := map[string]bool{}
	var out []string
	push := func(v []interface{}) {
		t := ref.JSON(v)
		if !seen[t] {
			seen[t] = true
			out = append(out, t)
		}
	}
	push(a)
	push(b)
	rev := make([]interface{}, len(a))
	for i := range a {
		rev[len(a)-1-i] = a[i]
	}
	push(rev)
	member := map[string]bool{}
	for i, m := range a {
		k := ref.JSON(m)
		if member[k] {
			continue
		}
		member[k] = true
		push(append(append([]interface{}{}, a...), m))
		push(append(append([]interface{}{}, a[:i]...), a[i+1:]...))
		r := append([]interface{}{}, a...)
		r[i] = 1.0
		push(r)
	}
	return out
}

var c08EditAlpha = []V{1.0, 2.0, nil, map[string]interface{}{"id": 1.0, "t": "x", "v": 1.0}, map[string]interface{}{"id": 9.0, "t": "x"}}

// c08Targets: a, b, every permutation and single duplication of every array of a, and every
// document within `dev` structural edits of a.
func c08Targets(aV, bV V, dev int) []string {
	seen := map[string]bool{}
	var out []string
	push := func(v V) {
		if ref.IsVoid(v) {
			return
		}
		t := ref.JSON(v)
		if !seen[t] {
			seen[t] = true
			out = append(out, t)
		}
	}
	push(aV)
	push(bV)
	for _, v := range permDup(aV) {
		push(v)
	}
	frontier := []V{aV}
	for d := 0; d < dev; d++ {
		var next []V
		for _, s := range frontier {
			for _, e := range gen.Edits(s, c08EditAlpha, []string{"v", "id", "z"}) {
				if !seen[ref.JSON(e)] {
					next = append(next, e)
				}
				push(e)
			}
		}
		frontier = next
	}
	return out
}

func init() {
	engine.Register(&engine.Check{
		ID: "C08",
		Rule: "for every (a,b) of the set / multiset / keyed universes: d=a.Diff(b,o), o in {SET, MULTISET, SetKeys(id), SetKeys(id,t)}; the whole diff and each single hunk are applied by the real Patch to " +
			"a, b, every permutation and duplication of every array of a and every document within one (thorough: two for small a) structural edits of a (members added/removed/changed, key fields changed, " +
			"addressed array replaced by scalars / objects / null); accept/reject and result are compared with the reference set/bag/keyed-member interpreter; non-trivial = target differs from a",
		Bounds: func(tier string) map[string]interface{} {
			m := map[string]interface{}{"target_deviation_bound": 1}
			if tier == "thorough" {
				m["target_deviation_bound"] = "1 everywhere, 2 for documents of <= 7 characters"
			}
			for _, o := range c08Opts {
				for _, l := range c08Legs(tier, o) {
					m[l.Name+"/"+o] = map[string]int{"documents": l.A.Len(), "ordered_pairs": l.A.Len() * l.A.Len()}
				}
			}
			return m
		},
		Enum: enumC08,
		Run:  runC08,
		Required: func(string) []string {
			return []string{"accept", "reject: set member absent", "reject: multiset member absent", "reject: wrong container kind: set hunk on a non-array", "reject: no member with these keys"}
		},
		Assume: []string{"hunk semantics = Appendix A of DESIGN.md", "keyed members: exactly one member object agrees on all listed keys, otherwise no verdict", "whole-array replacement hunks whose outcome depends on how the removed array is compared take no verdict"},
		Budget: budget(8*time.Minute, 45*time.Minute),
	})
}

// hand-written set / multiset hunks over {1,2}: every removal list and addition list of up to two values (the same
// value may stand on both sides), at the root and under a key, against every array of up to three values
func enumC08HandWritten(e *engine.Emitter) {
	seqs := [][]V{nil}
	for _, x := range []V{1.0, 2.0} {
		seqs = append(seqs, []V{x})
		for _, y := range []V{1.0, 2.0} {
			seqs = append(seqs, []V{x, y})
		}
	}
	targets := gen.Arrays(3, []V{1.0, 2.0})
	for _, pe := range []ref.PE{ref.SetPE(), ref.MsetPE()} {
		for _, under := range []bool{false, true} {
			for _, rem := range seqs {
				for _, add := range seqs {
					if len(rem)+len(add) == 0 {
						continue
					}
					path := []ref.PE{pe}
					if under {
						path = []ref.PE{ref.K("a"), pe}
					}
					x := ref.EncodeHunks([]ref.Hunk{{Path: path, Remove: rem, Add: add}})
					for _, t := range targets {
						var tv V = t
						if under {
							tv = map[string]interface{}{"a": t}
						}
						e.Emit(engine.Case{Kind: "c08hw:" + map[string]string{"set": "SET", "multiset": "MULTISET"}[pe.Kind], Leg: "hand-written/" + pe.Kind, C: ref.JSON(tv), X: x})
					}
				}
			}
		}
	}
}

// hand-written keyed-member hunks: the path names a member by one or two keys (a key value may be null),
// the nested hunk (v: 1 -> 2) fits every member of the alphabet, and the targets are all arrays of up to
// three members that carry, lack, or hold null under the naming keys - so the only question is WHICH member
// is addressed: exactly the one that holds every listed key with the listed value, wherever it stands.
func enumC08HandWrittenKeyed(e *engine.Emitter) {
	obj := func(kv ...interface{}) V {
		m := map[string]interface{}{"v": 1.0}
		for i := 0; i+1 < len(kv); i += 2 {
			m[kv[i].(string)] = kv[i+1]
		}
		return m
	}
	members := []V{obj("id", 1.0), obj("id", 1.0, "t", nil), obj("id", 1.0, "t", "x"), obj("id", 2.0, "t", nil), obj("t", nil), obj("id", nil), 1.0}
	keysets := []map[string]V{{"id": 1.0}, {"id": 1.0, "t": nil}, {"id": 1.0, "t": "x"}, {"id": nil}, {"id": nil, "t": nil}, {"t": nil}, {"id": 2.0, "t": nil}}
	targets := gen.Arrays(3, members)
	for _, ks := range keysets {
		for _, under := range []bool{false, true} {
			path := []ref.PE{ref.SetKeysPE(ks), ref.K("v")}
			if under {
				path = append([]ref.PE{ref.K("a")}, path...)
			}
			x := ref.EncodeHunks([]ref.Hunk{{Path: path, Remove: []V{1.0}, Add: []V{2.0}}})
			for _, t := range targets {
				var tv V = t
				if under {
					tv = map[string]interface{}{"a": t}
				}
				e.Emit(engine.Case{Kind: "c08hw:SETKEYS:id,t", Leg: "hand-written/setkeys", C: ref.JSON(tv), X: x})
			}
		}
	}
}

func enumC08(tier string, e *engine.Emitter) {
	enumC08HandWritten(e)
	enumC08HandWrittenKeyed(e)
	for _, o := range c08Opts {
		kind := "c08:" + o
		hk := engine.HS(kind)
		opts := impl.Options(o)
		for _, l := range c08Legs(tier, o) {
			for i, at := range l.A.Texts {
				if e.Stopped() {
					return
				}
				for j, bt := range l.B.Texts {
					if !e.Mine(engine.HashParts(hk, l.A.Hash[i], l.B.Hash[j], 0, 0)) {
						continue
					}
					h := 0
					impl.Guard(func() { h = len(impl.Read(at).Diff(impl.Read(bt), opts.Opts...)) })
					if h == 0 {
						continue
					}
					dev := 1
					if tier == "thorough" && len(at) <= 7 {
						dev = 2
					}
					var targets []string
					if l.Name[0] == 'U' && l.Name != "U3perm" && l.Name != "U4perm" {
						targets = l.A.Texts // complete triples
					} else if l.Name == "large-bags" {
						targets = bagTargets(l.A.Vals[i].([]interface{}), l.B.Vals[j].([]interface{}))
					} else {
						targets = c08Targets(l.A.Vals[i], l.B.Vals[j], dev)
					}
					masks := []uint64{(1 << uint(h)) - 1}
					if h > 1 && h <= 16 {
						for k := 0; k < h; k++ {
							masks = append(masks, 1<<uint(k))
						}
					}
					for _, m := range masks {
						ms := strconv.FormatUint(m, 10)
						for _, ct := range targets {
							e.Do(engine.Case{Kind: kind, Leg: l.Name + "/" + o, A: at, B: bt, C: ct, X: ms})
						}
					}
				}
			}
		}
	}
}

func runC08(c *engine.Case) engine.Result {
	o := impl.Options(optOf(c.Kind))
	mask, _ := strconv.ParseUint(c.X, 10, 64)
	res := engine.Result{}
	var fail, bucket string
	p := impl.Guard(func() {
		var sub jd.Diff
		if strings.HasPrefix(c.Kind, "c08hw:") {
			sub = impl.Diff(ref.DecodeHunks(c.X))
		} else {
			sub = subDiff(impl.Read(c.A).Diff(impl.Read(c.B), o.Opts...), mask)
		}
		hs, err := impl.Hunks(sub)
		res.Transitions++
		if err != nil {
			fail = "diff not observable: " + err.Error()
			return
		}
		cV := ref.MustParse(c.C)
		want, _, rej := ref.ApplyHunks(cV, hs)
		if rej != nil && rej.NoVerdict {
			bucket = "no-verdict: " + rej.Reason
			return
		}
		// whole-array replacement hunks: withhold the verdict where the comparison mode matters
		want2, _, rej2 := ref.ApplyHunksLoose(cV, hs, o.Reading)
		if (rej == nil) != (rej2 == nil) || (rej == nil && !ref.Equal(want.ToV(), want2.ToV(), o.Reading)) {
			bucket = "no-verdict: whole-array replacement compared under the reading"
			return
		}
		got := impl.Patch(c.C, sub)
		res.Transitions++
		res.Traces++
		switch {
		case rej != nil:
			bucket = "reject: " + rej.Reason
			if got.Panic != "" {
				fail = fmt.Sprintf("the patch does not match the target (%s) and Patch crashed: %s", rej.Error(), got.Panic)
			} else if got.OK {
				fail = fmt.Sprintf("the patch does not match the target (%s) but Patch succeeded and returned %s", rej.Error(), ref.JSON(got.Val))
			}
		default:
			bucket = "accept"
			if !got.OK {
				fail = fmt.Sprintf("every expectation of the patch holds on the target (reference result %s) but Patch failed: %s", ref.JSON(want.ToV()), got.String())
			} else if !ref.CompareMixed(want, got.Val) {
				fail = fmt.Sprintf("Patch returned %s, the hunks say %s (addressed arrays compared as %v)", ref.JSON(got.Val), ref.JSON(want.ToV()), o.Reading)
			}
		}
		if fail != "" {
			fail += " | patch:\n" + sub.Render()
		}
	})
	if p != "" {
		fail = "harness/diff " + p
	}
	res.Bucket = bucket + "/" + o.Name
	res.Nontrivial = c.C != c.A
	res.Violation = fail
	return res
}

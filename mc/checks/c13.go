package checks

import (
	"fmt"
	"os"
	"path/filepath"
	"strconv"
	"strings"
	"time"

	jd "github.com/josephburnett/jd/v2"

	"verif/mc/cli"
	"verif/mc/engine"
	"verif/mc/gen"
	"verif/mc/impl"
	"verif/mc/ref"
)

var c13Alphabet = []string{"@", "^", "[", "]", "{", "}", "\"", ":", ",", "-", "+", "1", "a", " ", "\n"}

// c13YamlTokens: YAML constructs as atomic symbols (non-finite floats, anchors and aliases, tags, explicit keys, block
// scalar and document markers, merge keys, numbers in other bases or beyond int64 / float64), for the YAML reader only.
var c13YamlTokens = []string{".inf", "-.inf", ".nan", "~", "&x ", "*x", "!!str ", "!!float ", "!!binary ", "!!int ", "? ", ": ", "- ", "|", ">", "#", "---\n", "a", "1", "0x1F", "1e400", "18446744073709551615",
	"\n", "  ", "[", "]", "{", "}", ",", "<<", "'", "\""}

var c13Readers = []string{"diff", "patch", "merge", "json", "yaml"}

var c13Lines = []string{`^ {"Merge":true}`, `@ ["a"]`, `@ [0]`, `@ [1]`, `@ [{}]`, `@ [[]]`, `@ [{"id":1},"v"]`, `@ ["a",[{"id":1}],"v"]`, `@ []`, `[`, `]`, `  1`, `- 1`, `+ 1`, `+`, ``, `- [1]`, `+ {"a":1}`}

var c13SmallTargets = []string{``, `1`, `[1]`, `[1,1]`, `[]`, `{}`, `{"a":1}`, `{"a":[1]}`, `[[1]]`, `[{"id":1,"v":1}]`, `null`, `"a"`, `[1,2,3]`}

func c13Targets(tier string) []string {
	if tier == "thorough" {
		return U(3).Texts
	}
	return c13SmallTargets
}

func allStrings(alpha []string, maxLen int, f func(string)) {
	var rec func(prefix string, l int)
	rec = func(prefix string, l int) {
		f(prefix)
		if l == maxLen {
			return
		}
		for _, a := range alpha {
			rec(prefix+a, l+1)
		}
	}
	rec("", 0)
}

func init() {
	engine.Register(&engine.Check{
		ID: "C13",
		Rule: "(i) every string of length <= 5 (thorough: 6) over a 15-symbol alphabet into each of the five readers, every diff that is read applied to a target set; (ii) every sequence of native-format lines of length <= 6 (thorough: 7) over 17 line kinds, pruned at the first line the reader rejects, " +
			"every accepted diff applied to the targets; (iii) every JSON Patch of <= 2 operations over the six RFC operations and a bogus one x 10 pointers x {no value, null, 1} and of 3 operations over a reduced set, read and applied; (iv) every diff of the C01 universes x 5 option sets with one (thorough: two) structural corruptions " +
			"(index replaced by -2,-1,0,len,len+1,5,1.5,1e18,1e300; path element replaced by another kind; context / remove / add lists emptied or doubled; merge flag flipped; path truncated or extended) applied to a, b and the target set; (v) CLI: one process per distinct error class; " +
			"oracle: every call returns a value or an error - no panic, no hang; CLI exit status 2 with a message and no stack trace; non-trivial = the reader accepted the text or the diff reached Patch",
		Bounds: func(tier string) map[string]interface{} {
			m := map[string]interface{}{"alphabet": c13Alphabet, "string_length": 5, "line_kinds": len(c13Lines), "line_sequence_length": 6, "targets": len(c13Targets(tier)), "corruption_bound": 1}
			if tier == "thorough" {
				m["string_length"], m["line_sequence_length"], m["corruption_bound"] = 6, 7, 2
			}
			return m
		},
		Enum:     enumC13,
		Run:      runC13,
		Required: func(string) []string { return []string{"reader/", "lines/accepted", "json-patch/", "corrupt/", "cli/"} },
		Assume:   []string{"coverage-guided fuzzing of arbitrary byte strings is sampling and is replaced by complete enumeration over small alphabets (DESIGN.md section 0)", "a Go panic is observed through recover(); fatal runtime errors kill the worker and are attributed by the coordinator's trace re-run"},
		Budget:   budget(9*time.Minute, 45*time.Minute),
	})
}

func c13PatchOps(full bool) []string {
	ops := []string{"add", "remove", "replace", "move", "copy", "test", "bogus"}
	ptrs := []string{"", "/0", "/1", "/-", "/a", "/a/0", "/01", "/-1", "/~2", "a", "/5"}
	vals := []string{"", `,"value":null`, `,"value":1`}
	if !full {
		ops = []string{"add", "remove", "test"}
		ptrs = []string{"/0", "/1", "/-", "/a", "/-1", "/5"}
		vals = []string{`,"value":1`, `,"value":2`}
	}
	var out []string
	for _, o := range ops {
		for _, p := range ptrs {
			for _, v := range vals {
				s := `{"op":"` + o + `","path":` + ref.JSON(p) + v
				if o == "move" || o == "copy" {
					s += `,"from":"/0"`
				}
				out = append(out, s+"}")
			}
		}
	}
	return out
}

var c13HOpts = []string{"none", "SET", "MULTISET", "SETKEYS:id", "MERGE"}

func c13HLegs(tier, o string) []pairLeg {
	var legs []pairLeg
	add := func(name string, t *TextSet) {
		if o == "MERGE" {
			t = nullFree(t)
		}
		legs = append(legs, pairLeg{name, t, t})
	}
	if o == "SETKEYS:id" {
		k := thin(Keyed(2, false), 40)
		if tier == "thorough" {
			k = thin(Keyed(2, false), 120)
		}
		add("K", k)
		return legs
	}
	if tier == "thorough" {
		add("U3", U(3))
		add("A3x6", Arr(3, "6"))
		add("A3x12@deep", Placed(Arr(3, "12"), gen.Placements[3]))
	} else {
		add("U3", thin(U(3), 100))
		add("A3x123", Arr(3, "123"))
		add("A2x6", Arr(2, "6"))
		add("A2x12@deep", Placed(Arr(2, "12"), gen.Placements[3]))
	}
	return legs
}

// corruption operators ----------------------------------------------------------------------

type corruption struct {
	Name string
	// apply returns the corrupted hunks, or text (when the corruption is only expressible in
	// the text format, e.g. a fractional index), ok=false if not applicable.
	apply func(hs []ref.Hunk) (out []ref.Hunk, text string, ok bool)
}

func cloneHunks(hs []ref.Hunk) []ref.Hunk {
	return ref.DecodeHunks(ref.EncodeHunks(hs))
}

func renderWithIndexLiteral(hs []ref.Hunk, hi, pi int, lit string) string {
	var b strings.Builder
	for i, h := range hs {
		s := h.String()
		if i == hi {
			// rebuild the path line with the literal
			parts := make([]string, len(h.Path))
			for j, pe := range h.Path {
				parts[j] = ref.PathJSON([]ref.PE{pe})
				parts[j] = parts[j][1 : len(parts[j])-1]
				if j == pi {
					parts[j] = lit
				}
			}
			lines := strings.SplitN(s, "\n", 3)
			at := 0
			if h.Merge {
				at = 1
			}
			all := strings.Split(s, "\n")
			all[at] = "@ [" + strings.Join(parts, ",") + "]"
			_ = lines
			s = strings.Join(all, "\n")
		}
		b.WriteString(s)
	}
	return b.String()
}

func corruptionsFor(hs []ref.Hunk) []corruption {
	var out []corruption
	for hi := range hs {
		hi := hi
		h := hs[hi]
		for pi, pe := range h.Path {
			pi := pi
			if pe.Kind == "index" {
				for _, v := range []int{-2, -1, 0, pe.Index + 1, pe.Index + 2, 5, 1 << 40} {
					v := v
					out = append(out, corruption{fmt.Sprintf("hunk %d path[%d] index -> %d", hi, pi, v), func(in []ref.Hunk) ([]ref.Hunk, string, bool) {
						c := cloneHunks(in)
						c[hi].Path[pi].Index = v
						return c, "", true
					}})
				}
				for _, lit := range []string{"1.5", "1e18", "1e300", "-0.5", "1e-300"} {
					lit := lit
					out = append(out, corruption{fmt.Sprintf("hunk %d path[%d] index literal %s", hi, pi, lit), func(in []ref.Hunk) ([]ref.Hunk, string, bool) {
						return nil, renderWithIndexLiteral(in, hi, pi, lit), true
					}})
				}
			}
			for _, repl := range []ref.PE{ref.K("a"), ref.I(0), ref.SetPE(), ref.MsetPE(), ref.SetKeysPE(map[string]V{"id": 1.0}), {Kind: "multisetkeys", Keys: map[string]V{"id": 1.0}}} {
				repl := repl
				if repl.Kind == pe.Kind {
					continue
				}
				out = append(out, corruption{fmt.Sprintf("hunk %d path[%d] %s -> %s", hi, pi, pe.Kind, repl.Kind), func(in []ref.Hunk) ([]ref.Hunk, string, bool) {
					c := cloneHunks(in)
					c[hi].Path[pi] = repl
					return c, "", true
				}})
			}
		}
		// truncate / extend the path
		out = append(out, corruption{fmt.Sprintf("hunk %d path truncated", hi), func(in []ref.Hunk) ([]ref.Hunk, string, bool) {
			c := cloneHunks(in)
			if len(c[hi].Path) == 0 {
				return nil, "", false
			}
			c[hi].Path = c[hi].Path[:len(c[hi].Path)-1]
			return c, "", true
		}})
		for _, ext := range []ref.PE{ref.I(0), ref.K("a"), ref.SetPE(), ref.I(-1)} {
			ext := ext
			out = append(out, corruption{fmt.Sprintf("hunk %d path extended by %s", hi, ext.Kind), func(in []ref.Hunk) ([]ref.Hunk, string, bool) {
				c := cloneHunks(in)
				c[hi].Path = append(c[hi].Path, ext)
				return c, "", true
			}})
		}
		// lists emptied / doubled / voided
		for _, field := range []string{"before", "after", "remove", "add"} {
			field := field
			for _, how := range []string{"emptied", "doubled", "void", "void-added"} {
				how := how
				out = append(out, corruption{fmt.Sprintf("hunk %d %s %s", hi, field, how), func(in []ref.Hunk) ([]ref.Hunk, string, bool) {
					c := cloneHunks(in)
					var p *[]V
					switch field {
					case "before":
						p = &c[hi].Before
					case "after":
						p = &c[hi].After
					case "remove":
						p = &c[hi].Remove
					default:
						p = &c[hi].Add
					}
					switch how {
					case "emptied":
						if len(*p) == 0 {
							return nil, "", false
						}
						*p = nil
					case "doubled":
						if len(*p) == 0 {
							*p = []V{1.0, 1.0}
						} else {
							*p = append(append([]V{}, *p...), *p...)
						}
					case "void":
						*p = []V{ref.Void{}}
					case "void-added":
						*p = append(append([]V{}, *p...), ref.Void{})
					}
					return c, "", true
				}})
			}
		}
		out = append(out, corruption{fmt.Sprintf("hunk %d merge flag flipped", hi), func(in []ref.Hunk) ([]ref.Hunk, string, bool) {
			c := cloneHunks(in)
			c[hi].Merge = !c[hi].Merge
			return c, "", true
		}})
	}
	return out
}

// diffs that fail on most targets: every failure path formats the found / wanted values into a message
var c13Mismatch = []string{"@ []\n- 1\n+ 2\n", "@ [\"a\"]\n- 1\n+ 2\n", "@ [0]\n- 1\n+ 2\n", "@ [1]\n  0\n+ 2\n", "@ [{}]\n- 1\n", "@ [[]]\n- 1\n", "@ [\"a\",{}]\n- 1\n",
	"@ [{\"id\":1},\"v\"]\n- 1\n+ 2\n", "@ [\"a\",0]\n- 1\n", "@ [0,\"a\"]\n- 1\n", "@ [\"a\",\"b\"]\n- 1\n", "^ {\"Merge\":true}\n@ [\"a\",\"b\"]\n+ 1\n", "@ [0]\n[\n- 1\n]\n", "@ [1]\n  1\n+ 2\n  3\n"}

// first steps that create fresh containers, second steps that write below them
var c13First = []string{"M{\"a\":{}}", "M{\"a\":[]}", "M{\"a\":{\"b\":{}}}", "M{\"a\":null}", "M{}", "M[]", "D@ [\"a\"]\n+ {}\n", "D@ [\"a\"]\n+ []\n", "D@ []\n- 1\n+ {}\n", "D@ []\n- 1\n+ []\n",
	"D@ []\n+ {}\n", "D@ []\n+ []\n", "P[{\"op\":\"add\",\"path\":\"/a\",\"value\":{}}]", "P[{\"op\":\"add\",\"path\":\"/a\",\"value\":[]}]", "P[{\"op\":\"add\",\"path\":\"\",\"value\":{}}]", "D@ [0]\n+ {}\n", "D@ [{}]\n+ {}\n", "D@ [[]]\n+ []\n"}
var c13Second = []string{"M{\"a\":{\"b\":1}}", "M{\"b\":1}", "M{\"a\":{\"b\":{\"c\":1}}}", "D@ [\"a\",\"b\"]\n+ 1\n", "D^ {\"Merge\":true}\n@ [\"a\",\"b\"]\n+ 1\n", "D@ [\"b\"]\n+ 1\n", "D@ [\"a\",0]\n+ 1\n", "D@ [0]\n+ 1\n",
	"D@ [\"a\",{}]\n+ 1\n", "D@ [\"a\",[]]\n+ 1\n", "D@ [{}]\n+ 1\n", "D@ [0,\"b\"]\n+ 1\n", "D@ [0,0]\n+ 1\n", "P[{\"op\":\"add\",\"path\":\"/a/b\",\"value\":1}]", "P[{\"op\":\"add\",\"path\":\"/a/0\",\"value\":1}]",
	"P[{\"op\":\"add\",\"path\":\"/a/-\",\"value\":1}]", "P[{\"op\":\"add\",\"path\":\"/b\",\"value\":1}]", "P[{\"op\":\"add\",\"path\":\"/-\",\"value\":1}]"}

func c13ReadTagged(s string) (jd.Diff, error) {
	switch s[0] {
	case 'M':
		return jd.ReadMergeString(s[1:])
	case 'P':
		return jd.ReadPatchString(s[1:])
	}
	return jd.ReadDiffString(s[1:])
}

func enumC13(tier string, e *engine.Emitter) {
	thorough := tier == "thorough"
	// (vi) failure messages for found values of every rendered length 1..~150, in four embeddings
	for n := 0; n <= 150; n++ {
		x := strings.Repeat("x", n)
		for _, t := range []string{`"` + x + `"`, `{"a":"` + x + `"}`, `["` + x + `"]`, `{"` + x + `":1}`, `[{"id":1,"v":"` + x + `"}]`, `{"a":["` + x + `"]}`} {
			for _, d := range c13Mismatch {
				e.Emit(engine.Case{Kind: "c13m", Leg: "message-ladder", A: t, B: d})
			}
		}
	}
	// (vii) two patches in a row: the second is applied to the live result of the first
	for _, t := range c13SmallTargets {
		for _, f := range c13First {
			for _, s := range c13Second {
				e.Emit(engine.Case{Kind: "c13s", Leg: "two-steps", A: t, B: f, C: s})
			}
		}
	}
	// (v) CLI
	for _, cc := range c13CLICases() {
		e.Emit(cc)
	}
	// (iii) JSON Patch programs
	full := c13PatchOps(true)
	red := c13PatchOps(false)
	for _, o1 := range full {
		e.Emit(engine.Case{Kind: "c13p", Leg: "json-patch/1-op", A: "[" + o1 + "]"})
		for _, o2 := range full {
			e.Emit(engine.Case{Kind: "c13p", Leg: "json-patch/2-ops", A: "[" + o1 + "," + o2 + "]"})
		}
	}
	for _, o1 := range red {
		for _, o2 := range red {
			for _, o3 := range red {
				e.Emit(engine.Case{Kind: "c13p", Leg: "json-patch/3-ops", A: "[" + o1 + "," + o2 + "," + o3 + "]"})
			}
		}
	}
	// four and five operations over {add, remove, test} x {/0, /1, /-} x value 1 (the reader groups tests, removes and
	// adds on one path, so its cursor logic needs runs longer than three)
	var tiny []string
	for _, o := range []string{"add", "remove", "test"} {
		for _, p := range []string{"/0", "/1", "/-"} {
			tiny = append(tiny, `{"op":"`+o+`","path":"`+p+`","value":1}`)
		}
	}
	maxOps := 4
	if thorough {
		maxOps = 5
	}
	var recOps func(prefix string, n int)
	recOps = func(prefix string, n int) {
		if n >= 4 {
			e.Emit(engine.Case{Kind: "c13p", Leg: fmt.Sprintf("json-patch/%d-ops", n), A: "[" + prefix + "]"})
		}
		if n == maxOps {
			return
		}
		for _, o := range tiny {
			if prefix == "" {
				recOps(o, n+1)
			} else {
				recOps(prefix+","+o, n+1)
			}
		}
	}
	recOps("", 0)
	// (ii) line sequences with pruning
	maxLines := 6
	if thorough {
		maxLines = 7
	}
	var rec func(prefix string, n int)
	rec = func(prefix string, n int) {
		if e.Stopped() {
			return
		}
		e.Emit(engine.Case{Kind: "c13l", Leg: "lines", A: prefix})
		if n == maxLines {
			return
		}
		// prune: if the reader rejects the prefix at one of its lines (not at its end), every
		// extension is rejected at the same line
		var err error
		impl.Guard(func() { _, err = jd.ReadDiffString(prefix) })
		if err != nil && !strings.Contains(err.Error(), "Unexpected end of diff") && n > 0 {
			return
		}
		for _, l := range c13Lines {
			rec(prefix+l+"\n", n+1)
		}
	}
	rec("", 0)
	// (i) strings
	maxLen := 5
	if thorough {
		maxLen = 6
	}
	for _, r := range c13Readers {
		kind := "c13r:" + r
		hk := engine.HS(kind)
		allStrings(c13Alphabet, maxLen, func(s string) {
			if e.Mine(engine.HashParts(hk, engine.HS(s), engine.HS(""), engine.HS(""), engine.HS(""))) {
				e.Do(engine.Case{Kind: kind, Leg: "reader/" + r, A: s})
			}
		})
	}
	yl := 4
	if thorough {
		yl = 5
	}
	hky := engine.HS("c13r:yaml-tokens")
	allStrings(c13YamlTokens, yl, func(s string) {
		if e.Mine(engine.HashParts(hky, engine.HS(s), engine.HS(""), engine.HS(""), engine.HS(""))) {
			e.Do(engine.Case{Kind: "c13r:yaml", Leg: "reader/yaml-tokens", A: s})
		}
	})
	// (iv) corrupted valid diffs
	depth := 1
	if thorough {
		depth = 2
	}
	for _, o := range c13HOpts {
		kind := "c13h:" + o
		hk := engine.HS(kind)
		opts := impl.Options(o)
		for _, l := range c13HLegs(tier, o) {
			for i, at := range l.A.Texts {
				if e.Stopped() {
					return
				}
				for j, bt := range l.B.Texts {
					if !e.Mine(engine.HashParts(hk, l.A.Hash[i], l.B.Hash[j], 0, 0)) {
						continue
					}
					var hs []ref.Hunk
					impl.Guard(func() { hs, _ = impl.Hunks(impl.Read(at).Diff(impl.Read(bt), opts.Opts...)) })
					if len(hs) == 0 || len(hs) > 4 {
						continue
					}
					n := len(corruptionsFor(hs))
					for k := 0; k < n; k++ {
						e.Do(engine.Case{Kind: kind, Leg: "corrupt/" + l.Name + "/" + o, A: at, B: bt, X: strconv.Itoa(k)})
						if depth == 2 && len(at)+len(bt) <= 14 {
							// second corruption: the index space of the corrupted diff is recomputed in Run
							for k2 := 0; k2 < n; k2 += 3 {
								e.Do(engine.Case{Kind: kind, Leg: "corrupt2/" + l.Name + "/" + o, A: at, B: bt, X: strconv.Itoa(k) + "," + strconv.Itoa(k2)})
							}
						}
					}
				}
			}
		}
	}
}

func applyToTargets(mk func() (jd.Diff, error), targets []string, res *engine.Result) string {
	for _, t := range targets {
		d, err := mk()
		if err != nil {
			return ""
		}
		out := impl.Patch(t, d)
		res.Transitions++
		if out.Panic != "" {
			return fmt.Sprintf("Patch on target %q crashed: %s", t, out.Panic)
		}
	}
	return ""
}

func runC13(c *engine.Case) engine.Result {
	if strings.HasPrefix(c.Kind, "c13cli:") {
		return runC13CLI(c)
	}
	res := engine.Result{}
	var fail string
	tier := "quick"
	targets := c13SmallTargets
	_ = tier
	switch {
	case strings.HasPrefix(c.Kind, "c13r:"):
		reader := optOf(c.Kind)
		var d jd.Diff
		var err error
		isDiff := true
		p := impl.Guard(func() {
			switch reader {
			case "diff":
				d, err = jd.ReadDiffString(c.A)
			case "patch":
				d, err = jd.ReadPatchString(c.A)
			case "merge":
				d, err = jd.ReadMergeString(c.A)
			case "json":
				isDiff = false
				var n jd.JsonNode
				n, err = jd.ReadJsonString(c.A)
				if err == nil {
					_ = n.Json()
					_ = n.Yaml()
				}
			case "yaml":
				isDiff = false
				var n jd.JsonNode
				n, err = jd.ReadYamlString(c.A)
				if err == nil {
					_ = n.Json()
					_ = n.Yaml()
					one, _ := jd.ReadJsonString(`{"a":[1]}`)
					_ = n.Equals(one)
					d := one.Diff(n)
					_ = d.Render()
					d.RenderPatch()
					one.Patch(d)
					one.Diff(n, jd.MERGE).RenderMerge()
					n.Diff(one, jd.SET).Render()
				}
			}
		})
		res.Transitions++
		if p != "" {
			fail = "reader " + reader + " crashed: " + p
			break
		}
		if err != nil {
			res.Bucket = "reader/" + reader + "/rejected"
			break
		}
		res.Bucket = "reader/" + reader + "/accepted"
		res.Nontrivial = true
		if isDiff {
			_ = d
			p := impl.Guard(func() {
				_ = d.Render()
				d.RenderPatch()
				d.RenderMerge()
			})
			if p != "" {
				fail = "rendering the diff that was read crashed: " + p
				break
			}
			fail = applyToTargets(func() (jd.Diff, error) {
				switch reader {
				case "diff":
					return jd.ReadDiffString(c.A)
				case "patch":
					return jd.ReadPatchString(c.A)
				}
				return jd.ReadMergeString(c.A)
			}, targets, &res)
		}
	case c.Kind == "c13m":
		res.Bucket = "message-ladder"
		res.Nontrivial = true
		out := impl.PatchOutcome{}
		p := impl.Guard(func() {
			d, err := jd.ReadDiffString(c.B)
			if err != nil {
				fail = "harness: mismatch diff unreadable: " + err.Error()
				return
			}
			out = impl.Patch(c.A, d)
			res.Transitions++
		})
		if p != "" {
			fail = "Patch crashed: " + p
		} else if out.Panic != "" {
			fail = "Patch crashed while reporting a mismatch: " + out.Panic
		} else if out.OK {
			res.Bucket = "message-ladder/applied"
		}
	case c.Kind == "c13s":
		res.Bucket = "two-steps/first-rejected"
		p := impl.Guard(func() {
			d1, err1 := c13ReadTagged(c.B)
			d2, err2 := c13ReadTagged(c.C)
			if err1 != nil || err2 != nil {
				fail = fmt.Sprintf("harness: step unreadable: %v %v", err1, err2)
				return
			}
			n, err := impl.Read(c.A).Patch(d1)
			res.Transitions++
			if err != nil {
				return
			}
			res.Bucket = "two-steps/second-rejected"
			res.Nontrivial = true
			n2, err := n.Patch(d2)
			res.Transitions++
			if err == nil {
				res.Bucket = "two-steps/both-applied"
				_ = n2.Json()
			}
		})
		if p != "" {
			fail = "the second patch, applied to the live result of the first, crashed: " + p
		}
	case c.Kind == "c13l":
		var err error
		p := impl.Guard(func() { _, err = jd.ReadDiffString(c.A) })
		res.Transitions++
		if p != "" {
			fail = "ReadDiffString crashed: " + p
			break
		}
		if err != nil {
			res.Bucket = "lines/rejected"
			break
		}
		res.Bucket = "lines/accepted"
		res.Nontrivial = true
		p = impl.Guard(func() {
			d, _ := jd.ReadDiffString(c.A)
			_ = d.Render()
			d.RenderPatch()
			d, _ = jd.ReadDiffString(c.A)
			d.RenderMerge()
		})
		if p != "" {
			fail = "rendering the diff that was read crashed: " + p
			break
		}
		fail = applyToTargets(func() (jd.Diff, error) { return jd.ReadDiffString(c.A) }, targets, &res)
	case c.Kind == "c13p":
		var err error
		p := impl.Guard(func() { _, err = jd.ReadPatchString(c.A) })
		res.Transitions++
		if p != "" {
			fail = "ReadPatchString crashed: " + p
			break
		}
		if err != nil {
			res.Bucket = "json-patch/rejected"
			break
		}
		res.Bucket = "json-patch/accepted"
		res.Nontrivial = true
		fail = applyToTargets(func() (jd.Diff, error) { return jd.ReadPatchString(c.A) }, targets, &res)
	default: // c13h
		o := impl.Options(optOf(c.Kind))
		var hs []ref.Hunk
		p := impl.Guard(func() { hs, _ = impl.Hunks(impl.Read(c.A).Diff(impl.Read(c.B), o.Opts...)) })
		if p != "" {
			fail = "harness: " + p
			break
		}
		text := ""
		desc := ""
		ok := true
		for _, ks := range strings.Split(c.X, ",") {
			k, _ := strconv.Atoi(ks)
			cs := corruptionsFor(hs)
			if text != "" || k >= len(cs) {
				ok = false
				break
			}
			var nh []ref.Hunk
			nh, text, ok = cs[k].apply(hs)
			desc += cs[k].Name + "; "
			if !ok {
				break
			}
			if text == "" {
				hs = nh
			}
		}
		if !ok {
			res.Bucket = "corrupt/not-applicable"
			break
		}
		res.Bucket = "corrupt/" + o.Name
		res.Nontrivial = true
		tg := append([]string{c.A, c.B}, targets...)
		mk := func() (jd.Diff, error) {
			if text != "" {
				return jd.ReadDiffString(text)
			}
			return impl.Diff(hs), nil
		}
		// the renderers must not crash on it either
		p = impl.Guard(func() {
			d, err := mk()
			if err != nil {
				return
			}
			t := d.Render()
			jd.ReadDiffString(t)
			d, _ = mk()
			d.RenderPatch()
			d, _ = mk()
			d.RenderMerge()
		})
		if p != "" {
			fail = "rendering the corrupted diff (" + desc + ") crashed: " + p
			break
		}
		fail = applyToTargets(mk, tg, &res)
		if fail != "" {
			d, _ := mk()
			fail += " | corruption: " + desc + " | diff:\n" + func() (s string) {
				defer func() { recover() }()
				return d.Render()
			}()
		}
	}
	res.Traces = 1
	res.Violation = fail
	return res
}

// ---------------------------------------------------------------------------------------
// (v) CLI
// ---------------------------------------------------------------------------------------

func c13CLICases() []engine.Case {
	var out []engine.Case
	diffs := []string{"@ [5]\n  1\n+ 2\n", "@ [-2,0]\n- 1\n", "@ [3]\n+ 2\n", "@ [1.5]\n+ 1\n", "@ [1e300]\n+ 1\n", "@ [{}]\n- 1\n", "@ [[]]\n- 1\n- 1\n", "@ [\"a\",0]\n[\n- 1\n]\n",
		"@ [{\"id\":1},\"v\"]\n- 1\n+ 2\n", "^ {\"Merge\":true}\n@ [0]\n+ 1\n", "garbage", "@ [", "@ [0]\n", "^ {}\n", "- 1\n", "@ [0]\n- 1\n- 2\n+ 3\n+ 4\n", "@ []\n- 1\n- 2\n"}
	patches := []string{`[{"op":"add","path":"/5","value":1}]`, `[{"op":"test","path":"/-1","value":1},{"op":"remove","path":"/-1","value":1}]`, `[{"op":"move","path":"/0","from":"/1"}]`, `{}`, `[1]`, `[{"op":"add"}]`,
		`[{"op":"test","path":"/3","value":1},{"op":"add","path":"/4","value":1}]`, `garbage`, `[{"op":"add","path":"/a/b/c","value":1}]`, `[{"op":"add","path":"/-","value":1},{"op":"test","path":"/9","value":1},{"op":"remove","path":"/9","value":1}]`}
	merges := []string{`garbage`, `{"a":`, `null`, `[1]`, `{"a":{"b":null}}`}
	docs := []string{`[1]`, `{"a":[1]}`, `1`, ``, `[[1]]`, `[{"id":1,"v":1}]`}
	for _, bin := range []string{"v2", "top", "top-v1"} {
		for _, d := range diffs {
			for _, t := range docs {
				out = append(out, engine.Case{Kind: "c13cli:" + bin, Leg: "cli/" + bin, A: d, B: t, X: "-p"})
			}
			out = append(out, engine.Case{Kind: "c13cli:" + bin, Leg: "cli/" + bin, A: d, X: "-t jd2patch"})
			out = append(out, engine.Case{Kind: "c13cli:" + bin, Leg: "cli/" + bin, A: d, X: "-t jd2merge"})
		}
		for _, p := range patches {
			for _, t := range docs {
				out = append(out, engine.Case{Kind: "c13cli:" + bin, Leg: "cli/" + bin, A: p, B: t, X: "-p -f patch"})
			}
			out = append(out, engine.Case{Kind: "c13cli:" + bin, Leg: "cli/" + bin, A: p, X: "-t patch2jd"})
		}
		for _, m := range merges {
			for _, t := range docs {
				out = append(out, engine.Case{Kind: "c13cli:" + bin, Leg: "cli/" + bin, A: m, B: t, X: "-p -f merge"})
			}
			out = append(out, engine.Case{Kind: "c13cli:" + bin, Leg: "cli/" + bin, A: m, X: "-t merge2jd"})
		}
		for _, o := range []string{"@FIRST/out", "@LONGNAME", "@DIR", "/nonexistent-dir/x/out", ""} {
			out = append(out, engine.Case{Kind: "c13cli:" + bin, Leg: "cli-o/" + bin, A: `[1]`, B: `[2]`, X: "diff -o " + o})
			out = append(out, engine.Case{Kind: "c13cli:" + bin, Leg: "cli-o/" + bin, A: "@ [0]\n- 1\n+ 2\n", B: `[1]`, X: "-p -o " + o})
			out = append(out, engine.Case{Kind: "c13cli:" + bin, Leg: "cli-o/" + bin, A: `{"a":1}`, X: "-t json2yaml -o " + o})
		}
		for _, bad := range []string{"{", "[1,", "\x00", "a: [", "- - -", "{\"a\":1}}", "\"\\u12\"", ".inf", "a: -.inf", "- .nan", "a: [1, .NaN]", "a: 18446744073709551615", "1: a", "? [1]\n: 2", "a: &x [*x]", "a: !!binary x", "a: !!float x", "a: 1e400"} {
			out = append(out, engine.Case{Kind: "c13cli:" + bin, Leg: "cli/" + bin, A: bad, B: `[1]`, X: "diff"})
			out = append(out, engine.Case{Kind: "c13cli:" + bin, Leg: "cli/" + bin, A: bad, B: `[1]`, X: "diff -yaml"})
			out = append(out, engine.Case{Kind: "c13cli:" + bin, Leg: "cli/" + bin, A: bad, X: "-t json2yaml"})
			out = append(out, engine.Case{Kind: "c13cli:" + bin, Leg: "cli/" + bin, A: bad, X: "-t yaml2json"})
		}
	}
	return out
}

func runC13CLI(c *engine.Case) engine.Result {
	bin, _, extra := binOf(c.Kind)
	res := engine.Result{Nontrivial: true}
	dir := cli.TempDir()
	defer os.RemoveAll(dir)
	f1 := cli.WriteFile(dir, "first", c.A)
	args := append([]string{}, extra...)
	for _, t := range strings.Fields(c.X) {
		switch t {
		case "diff":
		case "@FIRST/out": // a path below a regular file
			args = append(args, f1+"/out")
		case "@LONGNAME": // a file name longer than any file system allows
			args = append(args, filepath.Join(dir, strings.Repeat("n", 300)))
		case "@DIR": // a directory
			args = append(args, dir)
		default:
			args = append(args, t)
		}
	}
	if strings.HasSuffix(c.X, "-o ") {
		args = append(args, "") // -o with an empty name
	}
	args = append(args, f1)
	if !strings.HasPrefix(c.X, "-t") {
		args = append(args, cli.WriteFile(dir, "second", c.B))
	}
	got := cli.Run(dir, bin, args, nil)
	res.Transitions, res.Traces = 1, 1
	res.Bucket = fmt.Sprintf("cli/exit=%d", got.Exit)
	switch {
	case got.Timeout:
		res.Violation = "the process did not terminate"
	case strings.Contains(got.Stderr, "panic:") || strings.Contains(got.Stderr, "goroutine "):
		res.Violation = "Go stack trace on stderr: " + firstLine(got.Stderr)
	case got.Exit != 0 && got.Exit != 1 && got.Exit != 2:
		res.Violation = fmt.Sprintf("exit status %d", got.Exit)
	case got.Exit == 2 && strings.TrimSpace(got.Stderr) == "":
		res.Violation = "exit status 2 without a message"
	case got.Exit == 2 && strings.Count(strings.TrimRight(got.Stderr, "\n"), "\n") > 0 && !strings.Contains(got.Stderr, "Usage"):
		res.Violation = fmt.Sprintf("error message is not one line: %q", got.Stderr)
	}
	if res.Violation != "" {
		res.Violation += " | flags: " + strings.Join(extra, " ") + " " + c.X + " | first file: " + strconv.Quote(c.A) + " second: " + strconv.Quote(c.B)
	}
	return res
}

package checks

import (
	"fmt"
	"os"
	"strings"

	"verif/mc/cli"
	"verif/mc/engine"
	"verif/mc/impl"
	"verif/mc/ref"
)

var c05CLIDocs = []string{`1`, `1.05`, `[1,2]`, `[2,1]`, `[1,1,2]`, `{"a":[1,2]}`, `{"a":[2,1]}`, `[{"id":1,"v":1}]`,
	`[{"id":1,"v":2}]`, `{"a":1}`, `{"a":1.05}`, ``, `null`, `[[1,2],[3]]`, `[[2,1],[3]]`}

// documents with bytes that are not UTF-8 (written with the byte marker of cli.ExpandBytes), their nearest valid
// neighbours, and strings that differ only in a tab / spaces, line ends or Unicode composition
var c05CLIBytes = []string{"{\"name\":\"caf\u27e6E9\u27e7\"}", `{"name":"caf"}`, "{\"name\":\"caf\ufffd\"}", "{\"k\u27e6FF\u27e7\":1}", `{"k":1}`, `{"name":"a\tb"}`, `{"name":"a  b"}`,
	`{"name":"a\r\nb"}`, `{"name":"a\nb"}`, "{\"name\":\"\u00e9\"}", "{\"name\":\"e\u0301\"}"}

var c05CLIFlags = []string{"", "-set", "-mset", "-setkeys id", "-precision 0.1"}

func c05CLICases(tier string) []engine.Case {
	var out []engine.Case
	docs := c05CLIDocs
	if tier != "thorough" {
		docs = docs[:12]
	}
	for _, bin := range []string{"jd-v2", "jd-top"} {
		for _, fl := range []string{"", "-set", "-f merge", "-f patch"} {
			for _, a := range c05CLIBytes {
				for _, b := range c05CLIBytes {
					out = append(out, engine.Case{Kind: "c05cli:" + bin, Leg: "cli-bytes/" + bin, A: a, B: b, X: fl})
				}
			}
		}
		// YAML files read with -yaml: distinct texts that denote distinct values (a raw tab inside a quoted scalar
		// against two spaces, block scalars with different chomping, a comment against none changes nothing)
		for _, a := range c05CLIYaml {
			for _, b := range c05CLIYaml {
				out = append(out, engine.Case{Kind: "c05cliy:" + bin, Leg: "cli-yaml/" + bin, A: a[0], B: b[0], X: a[1] + "|" + b[1]})
			}
		}
		for _, fl := range c05CLIFlags {
			for _, f := range []string{"jd", "patch", "merge"} {
				for _, a := range docs {
					for _, b := range docs {
						out = append(out, engine.Case{Kind: "c05cli:" + bin, Leg: "cli/" + bin, A: a, B: b, X: strings.TrimSpace(fl + " -f " + f)})
						if len(a) <= 6 || len(b) <= 6 {
							// the exit status must not depend on where the output goes
							out = append(out, engine.Case{Kind: "c05cli:" + bin, Leg: "cli-o/" + bin, A: a, B: b, X: strings.TrimSpace(fl + " -f " + f + " @o")})
						}
					}
				}
			}
		}
	}
	return out
}

// (YAML text, JSON value it denotes)
var c05CLIYaml = [][2]string{{"k: \"a\tb\"\n", `{"k":"a\tb"}`}, {"k: \"a  b\"\n", `{"k":"a  b"}`}, {"k: 'a\tb'\n", `{"k":"a\tb"}`}, {"k: \"a\\tb\" # tab\n", `{"k":"a\tb"}`},
	{"k: |\n  x\n", `{"k":"x\n"}`}, {"k: |-\n  x\n", `{"k":"x"}`}, {"k: x\n", `{"k":"x"}`}, {"k: [1, 2]\n", `{"k":[1,2]}`}, {"k:\n- 1\n- 2\n", `{"k":[1,2]}`}}

func runC05CLIYaml(c *engine.Case) engine.Result {
	bin := strings.TrimPrefix(c.Kind, "c05cliy:")
	vals := strings.SplitN(c.X, "|", 2)
	want := ref.Equal(ref.MustParse(vals[0]), ref.MustParse(vals[1]), ref.List)
	dir := cli.TempDir()
	defer os.RemoveAll(dir)
	out := cli.Run(dir, cli.Bin(bin), []string{"-yaml", cli.WriteFile(dir, "a.yaml", c.A), cli.WriteFile(dir, "b.yaml", c.B)}, nil)
	res := engine.Result{Transitions: 1, Traces: 1, Nontrivial: c.A != c.B, Bucket: fmt.Sprintf("cli-yaml/equal=%v/exit=%d", want, out.Exit)}
	switch {
	case out.Timeout:
		res.Violation = "CLI did not terminate"
	case want && out.Exit != 0:
		res.Violation = fmt.Sprintf("jd -yaml: the two files denote the same document but the exit status is %d (stdout %q stderr %q)", out.Exit, out.Stdout, firstLine(out.Stderr))
	case !want && out.Exit != 1:
		res.Violation = fmt.Sprintf("jd -yaml: the two files denote different documents (%s, %s) but the exit status is %d (stdout %q stderr %q)", vals[0], vals[1], out.Exit, out.Stdout, firstLine(out.Stderr))
	}
	return res
}

func flagsToOptName(flags string) string {
	var parts []string
	fs := strings.Fields(flags)
	for i := 0; i < len(fs); i++ {
		switch fs[i] {
		case "-set":
			parts = append(parts, "SET")
		case "-mset":
			parts = append(parts, "MULTISET")
		case "-setkeys":
			parts = append(parts, "SETKEYS:"+fs[i+1])
			i++
		case "-precision":
			parts = append(parts, "PRECISION:"+fs[i+1])
			i++
		case "-f":
			if fs[i+1] == "merge" {
				parts = append(parts, "MERGE")
			}
			i++
		}
	}
	if len(parts) == 0 {
		return "none"
	}
	return strings.Join(parts, "+")
}

func runC05CLI(c *engine.Case) engine.Result {
	bin := strings.TrimPrefix(c.Kind, "c05cli:")
	o := impl.Options(flagsToOptName(c.X))
	aV, bV := ref.MustParse(cli.ExpandBytes(c.A)), ref.MustParse(cli.ExpandBytes(c.B))
	var want bool
	if o.Eps > 0 {
		if ref.NearBoundary(aV, bV, o.Eps) {
			return engine.Result{Bucket: "cli/no-verdict: eps boundary"}
		}
		want = ref.EqualEps(aV, bV, o.Eps)
	} else {
		want = ref.Equal(aV, bV, o.Reading)
	}
	dir := cli.TempDir()
	defer os.RemoveAll(dir)
	fa := cli.WriteFile(dir, "a.json", c.A)
	fb := cli.WriteFile(dir, "b.json", c.B)
	var args []string
	for _, t := range strings.Fields(c.X) {
		if t == "@o" {
			args = append(args, "-o", dir+"/out.txt")
		} else {
			args = append(args, t)
		}
	}
	args = append(args, fa, fb)
	out := cli.Run(dir, cli.Bin(bin), args, nil)
	res := engine.Result{Transitions: 1, Traces: 1, Nontrivial: c.A != c.B}
	crash := strings.Contains(out.Stderr, "panic:") || strings.Contains(out.Stderr, "goroutine ")
	switch {
	case out.Timeout:
		res.Violation = "CLI did not terminate"
	case crash:
		res.Violation = "CLI crashed: " + firstLine(out.Stderr)
	case want && out.Exit != 0:
		res.Violation = fmt.Sprintf("inputs are equal under %q but exit status is %d (stdout %q stderr %q)", c.X, out.Exit, out.Stdout, firstLine(out.Stderr))
	case !want && out.Exit == 0:
		res.Violation = fmt.Sprintf("inputs differ under %q but exit status is 0 (stdout %q)", c.X, out.Stdout)
	case !want && out.Exit == 2 && !(strings.Contains(c.X, "-f patch") || strings.Contains(c.X, "-f merge")):
		res.Violation = fmt.Sprintf("inputs differ under %q but exit status is 2: %s", c.X, firstLine(out.Stderr))
	case !want && out.Exit != 1 && out.Exit != 2:
		res.Violation = fmt.Sprintf("unexpected exit status %d", out.Exit)
	}
	res.Bucket = fmt.Sprintf("cli/equal=%v/exit=%d", want, out.Exit)
	return res
}

// firstLine returns the first line of a process's stderr without the log time stamp and without
// scratch directory names, so that a violation message is the same on every re-execution.
func firstLine(s string) string {
	if i := strings.Index(s, "\n"); i >= 0 {
		s = s[:i]
	}
	return stripStamp(s)
}

package checks

import (
	"fmt"
	"time"

	v1 "github.com/josephburnett/jd/lib"

	"verif/mc/engine"
	"verif/mc/gen"
	"verif/mc/impl"
	"verif/mc/ref"
)

func c18Legs(tier string, merge bool) []pairLeg {
	var legs []pairLeg
	add := func(name string, t *TextSet) {
		t = noVoid(t)
		if merge {
			t = nullFree(t)
		}
		legs = append(legs, pairLeg{name, t, t})
	}
	if tier == "thorough" {
		add("U5", U(5))
		add("A4x6", Arr(4, "6"))
		add("A6x123", Arr(6, "123"))
		for _, p := range gen.Placements[1:] {
			add("A3x6@"+p.Name, Placed(Arr(3, "6"), p))
		}
		add("hostile", HostileDocs())
		add("deep", Deep(true))
		add("mixed", Mixed())
		add("hostile-arrays", HostileArrays())
		add("large", Large())
		add("hostile2", HostileDocs2())
		add("numbers", NumDocs())
		add("strings", StrDocs())
		add("E2", EditStates(2, 1500))
	} else {
		add("U4", U(4))
		add("A3x6", Arr(3, "6"))
		add("A5x123", Arr(5, "123"))
		for _, p := range gen.Placements[1:] {
			add("A2x6@"+p.Name, Placed(Arr(2, "6"), p))
		}
		add("hostile", thin(HostileDocs(), 220))
		add("deep", Deep(true))
		add("mixed", Mixed())
		add("hostile-arrays", HostileArrays())
		add("large", Large())
		add("hostile2", HostileDocs2())
		add("numbers", NumDocs())
		add("strings", StrDocs())
		add("E1", EditStates(1, 300))
	}
	return legs
}

func init() {
	engine.Register(&engine.Check{
		ID: "C18",
		Rule: "v1 library: all ordered pairs (a,b) of the universes (incl. keys that look like integers, need pointer escaping or are '-'): list mode: RenderPatch(a.Diff(b)) evaluated on a by the independent RFC 6902 evaluator must give b, and ReadPatchString+Patch(a) must give b; " +
			"merge mode (null-free, a != b): RenderMerge applied by the RFC 7386 pseudocode must give b, and ReadMergeString+Patch(a) must give b; refusal only for the key '-'; non-trivial = diff non-empty",
		Bounds: func(tier string) map[string]interface{} {
			m := map[string]interface{}{}
			for _, mode := range []bool{false, true} {
				for _, l := range c18Legs(tier, mode) {
					m[fmt.Sprintf("%s/merge=%v", l.Name, mode)] = map[string]int{"documents": l.A.Len(), "ordered_pairs": l.A.Len() * l.A.Len()}
				}
			}
			return m
		},
		Enum: func(tier string, e *engine.Emitter) {
			for _, l := range c18Legs(tier, false) {
				pairs(e, "c18:patch", l.Name+"/patch", l.A, l.B)
			}
			for _, l := range c18Legs(tier, true) {
				pairs(e, "c18:merge", l.Name+"/merge", l.A, l.B)
			}
		},
		Run:      runC18,
		Required: func(string) []string { return []string{"patch/multi-hunk", "merge/multi-hunk", "patch/refused"} },
		Assume:   []string{"RFC 6902 and RFC 7386 evaluators of /verif/mc/ref"},
		Budget:   budget(7*time.Minute, 40*time.Minute),
	})
}

func hasDashKey(v V) bool {
	switch t := v.(type) {
	case map[string]interface{}:
		for k, e := range t {
			if k == "-" || hasDashKey(e) {
				return true
			}
		}
	case []interface{}:
		for _, e := range t {
			if hasDashKey(e) {
				return true
			}
		}
	}
	return false
}

func runC18(c *engine.Case) engine.Result {
	merge := c.Kind == "c18:merge"
	aV, bV := ref.MustParse(c.A), ref.MustParse(c.B)
	res := engine.Result{}
	var fail, text, bucket string
	p := impl.Guard(func() {
		var meta []v1.Metadata
		if merge {
			if ref.Equal(aV, bV, ref.List) {
				bucket = "merge/skipped-equal"
				return
			}
			meta = append(meta, v1.MERGE)
		}
		mk := func() v1.Diff { return impl.ReadV1(c.A).Diff(impl.ReadV1(c.B), meta...) }
		nh := len(mk())
		res.Transitions++
		var err error
		if merge {
			text, err = mk().RenderMerge()
			res.Transitions++
			if err != nil {
				fail = "RenderMerge failed: " + err.Error()
				return
			}
			pv, perr := ref.Parse(text)
			if perr != nil || ref.IsVoid(pv) {
				fail = fmt.Sprintf("RenderMerge output is not a JSON document: %q", text)
				return
			}
			res.Traces++
			if got := ref.MergePatch(aV, pv); !ref.Equal(got, bV, ref.List) {
				fail = "MergePatch(a, rendered patch) = " + ref.JSON(got) + ", not b"
				return
			}
			d2, rerr := v1.ReadMergeString(text)
			if rerr != nil {
				fail = "ReadMergeString rejects the rendered merge patch: " + rerr.Error()
				return
			}
			out := impl.PatchV1(c.A, d2)
			res.Transitions += 2
			if !out.OK || !ref.Equal(out.Val, bV, ref.List) {
				fail = "ReadMergeString(RenderMerge(d)) applied to a gives " + out.String() + ", not b"
				return
			}
			// the re-read diff renders back to the same patch, and reading after that rendering still works
			// (state shared between the values the reader hands out would show here)
			if d3, err := v1.ReadMergeString(text); err == nil {
				t2, err2 := d3.RenderMerge()
				p2, perr2 := ref.Parse(t2)
				res.Transitions += 2
				if err2 != nil || perr2 != nil || !ref.Equal(p2, pv, ref.List) {
					fail = fmt.Sprintf("ReadMergeString(text).RenderMerge() = %q (%v), not the patch that was read", t2, err2)
					return
				}
				d4, _ := v1.ReadMergeString(text)
				if out := impl.PatchV1(c.A, d4); !out.OK || !ref.Equal(out.Val, bV, ref.List) {
					fail = "after a diff read from the same patch text was rendered, ReadMergeString + Patch gives " + out.String() + ", not b"
					return
				}
			}
			bucket = "merge/" + hunkShape(nh)
			return
		}
		text, err = mk().RenderPatch()
		res.Transitions++
		if err != nil {
			if hasDashKey(aV) || hasDashKey(bV) {
				bucket = "patch/refused: key '-'"
				return
			}
			fail = "RenderPatch refused a diff whose paths are expressible: " + err.Error()
			return
		}
		ops, perr := ref.ParsePatch(text)
		res.Traces++
		if perr != nil {
			fail = "RenderPatch output is not a well-formed RFC 6902 document: " + perr.Error()
			return
		}
		got, eerr := ref.Apply6902(aV, ops)
		if eerr != nil {
			fail = "the rendered JSON Patch does not apply to a under RFC 6902: " + eerr.Error()
			return
		}
		if !ref.Equal(got, bV, ref.List) {
			fail = "the rendered JSON Patch turns a into " + ref.JSON(got) + ", not b"
			return
		}
		d2, rerr := v1.ReadPatchString(text)
		if rerr != nil {
			fail = "ReadPatchString rejects the rendered JSON Patch: " + rerr.Error()
			return
		}
		out := impl.PatchV1(c.A, d2)
		res.Transitions += 2
		if !out.OK || !ref.Equal(out.Val, bV, ref.List) {
			fail = "ReadPatchString(RenderPatch(d)) applied to a gives " + out.String() + ", not b"
			return
		}
		bucket = "patch/" + hunkShape(nh)
	})
	if p != "" {
		fail = p
	}
	res.Bucket = bucket
	res.Nontrivial = bucket != "patch/empty-diff" && bucket != "merge/skipped-equal"
	if fail != "" {
		res.Violation = fail + " | rendered: " + text
	}
	return res
}

package checks

import (
	"fmt"
	"os"
	"path/filepath"
	"strings"
	"time"

	jd "github.com/josephburnett/jd/v2"

	"verif/mc/cli"
	"verif/mc/engine"
	"verif/mc/impl"
	"verif/mc/ref"
)

var c11Opts = []string{"MERGE", "SET+MERGE", "MULTISET+MERGE"}

func c11Legs(tier, o string) []pairLeg {
	var legs []pairLeg
	add := func(name string, t *TextSet) {
		t = noVoid(nullFree(t))
		legs = append(legs, pairLeg{name, t, t})
	}
	if tier == "thorough" {
		add("U5", U(5))
		add("U4perm", UPerm(4))
		add("K", thin(Keyed(2, false), 600))
		add("E3", EditStates(3, 3000))
		add("hostile", HostileDocs())
		add("deep", Deep(true))
		add("large", Large())
		add("hostile2", HostileDocs2())
		add("numbers", NumDocs())
		add("strings", StrDocs())
		add("mixed", Mixed())
	} else {
		add("U4", U(4))
		add("U3perm", UPerm(3))
		add("K", thin(Keyed(2, false), 150))
		add("E2", EditStates(2, 500))
		add("hostile", thin(HostileDocs(), 150))
		add("deep", Deep(true))
		add("large", Large())
		add("hostile2", HostileDocs2())
		add("numbers", NumDocs())
		add("strings", StrDocs())
		add("mixed", Mixed())
	}
	return legs
}

func init() {
	engine.Register(&engine.Check{
		ID: "C11",
		Rule: "all ordered pairs of null-free JSON documents (no void) that differ under the reading, x {MERGE, SET+MERGE, MULTISET+MERGE}: the text of RenderMerge(a.Diff(b,o)) is parsed and applied to a by the RFC 7386 section 2 pseudocode; " +
			"the result must equal b under the reading in force; non-trivial = every evaluated pair (a != b)",
		Bounds: func(tier string) map[string]interface{} {
			m := map[string]interface{}{}
			for _, o := range c11Opts {
				for _, l := range c11Legs(tier, o) {
					m[l.Name+"/"+o] = map[string]int{"documents": l.A.Len(), "ordered_pairs": l.A.Len() * l.A.Len()}
				}
			}
			return m
		},
		Enum: func(tier string, e *engine.Emitter) {
			for _, bin := range []string{"jd-v2", "jd-top"} {
				for _, fl := range []string{"", "@o", "-color", "-color @o", "-set", "-set @o", "-mset -color", "-yaml"} {
					for _, a := range c11CLIDocs {
						for _, b := range c11CLIDocs {
							e.Emit(engine.Case{Kind: "c11cli:" + bin, Leg: "cli/" + bin, A: a, B: b, X: fl})
						}
					}
				}
			}
			for _, o := range c11Opts {
				for _, l := range c11Legs(tier, o) {
					pairs(e, "c11:"+o, l.Name+"/"+o, l.A, l.B)
				}
			}
		},
		Run:      runC11,
		Required: func(string) []string { return []string{"key-removal", "type-change", "nested"} },
		Assume:   []string{"RFC 7386 section 2 pseudocode transcribed in /verif/mc/ref (validated on the RFC's appendix table at start-up)"},
		Budget:   budget(7*time.Minute, 40*time.Minute),
	})
}

var c11CLIDocs = []string{`{"a":1,"b":{"c":2}}`, `{"a":2,"b":{"c":2,"d":[1]}}`, `{}`, `[1,2]`, `[2,1]`, `"s"`, `{"a":"<&>%s"}`}

// runC11CLI: jd -f merge [flags] [-o F] a b: what lands on stdout or in F is the patch the library renders (plain
// JSON, whatever the colour flag says), also when it is {} and F held something else before.
func runC11CLI(c *engine.Case) engine.Result {
	bin := strings.TrimPrefix(c.Kind, "c11cli:")
	res := engine.Result{Traces: 1, Transitions: 1, Nontrivial: true, Bucket: "cli"}
	dir := cli.TempDir()
	defer os.RemoveAll(dir)
	args := []string{"-f", "merge"}
	outFile := ""
	var opts []string
	for _, t := range strings.Fields(c.X) {
		switch t {
		case "@o":
			outFile = filepath.Join(dir, "out.json")
			os.WriteFile(outFile, []byte(strings.Repeat(`{"stale":"patch from an earlier run"}`+"\n", 50)), 0644)
			args = append(args, "-o", outFile)
		case "-set":
			opts = append(opts, "SET")
			args = append(args, t)
		case "-mset":
			opts = append(opts, "MULTISET")
			args = append(args, t)
		default:
			args = append(args, t)
		}
	}
	o := impl.Options(strings.Join(append(opts, "MERGE"), "+"))
	args = append(args, cli.WriteFile(dir, "a.json", c.A), cli.WriteFile(dir, "b.json", c.B))
	out := cli.Run(dir, cli.Bin(bin), args, nil)
	var want string
	if p := impl.Guard(func() { want, _ = impl.Read(c.A).Diff(impl.Read(c.B), o.Opts...).RenderMerge() }); p != "" {
		res.Violation = "library: " + p
		return res
	}
	got := out.Stdout
	if outFile != "" {
		b, err := os.ReadFile(outFile)
		if err != nil {
			res.Violation = fmt.Sprintf("jd -f merge %s: the -o file was not written (exit %d, stderr %q)", c.X, out.Exit, firstLine(out.Stderr))
			return res
		}
		got = string(b)
	}
	wv, _ := ref.Parse(want)
	gv, gerr := ref.Parse(got)
	shown := "-f merge " + c.X // (not the argument vector: it holds scratch paths)
	switch {
	case out.Timeout:
		res.Violation = "CLI did not terminate"
	case out.Exit != 0 && out.Exit != 1:
		res.Violation = fmt.Sprintf("exit status %d: %s", out.Exit, firstLine(out.Stderr))
	case gerr != nil || ref.IsVoid(gv) || !ref.Equal(gv, wv, ref.List):
		if len(got) > 300 {
			got = got[:300] + "..."
		}
		res.Violation = fmt.Sprintf("jd %s wrote %q, the library renders the merge patch as %q", shown, got, want)
	}
	return res
}

func runC11(c *engine.Case) engine.Result {
	if strings.HasPrefix(c.Kind, "c11cli:") {
		return runC11CLI(c)
	}
	o := impl.Options(optOf(c.Kind))
	aV, bV := ref.MustParse(c.A), ref.MustParse(c.B)
	if ref.Equal(aV, bV, o.Reading) {
		return engine.Result{Bucket: "skipped: a equals b under the reading"}
	}
	res := engine.Result{Nontrivial: true}
	var fail, text string
	p := impl.Guard(func() {
		var d jd.Diff = impl.Read(c.A).Diff(impl.Read(c.B), o.Opts...)
		res.Transitions++
		var err error
		text, err = d.RenderMerge()
		res.Transitions++
		if err != nil {
			fail = "RenderMerge failed: " + err.Error()
			return
		}
		pv, perr := ref.Parse(text)
		if perr != nil || ref.IsVoid(pv) {
			fail = fmt.Sprintf("RenderMerge output is not a JSON document: %q", text)
			return
		}
		res.Traces++
		got := ref.MergePatch(aV, pv)
		if !ref.Equal(got, bV, o.Reading) {
			fail = "MergePatch(a, rendered patch) = " + ref.JSON(got) + ", not b"
		}
	})
	if p != "" {
		fail = p
	}
	switch {
	case ref.Kind(aV) != ref.Kind(bV):
		res.Bucket = "type-change-at-root"
	case ref.Kind(aV) == "object":
		am, bm := aV.(map[string]interface{}), bV.(map[string]interface{})
		res.Bucket = "object"
		for k := range am {
			if _, ok := bm[k]; !ok {
				res.Bucket = "key-removal"
			}
		}
		for k, av := range am {
			if bv, ok := bm[k]; ok && ref.Kind(av) != ref.Kind(bv) {
				res.Bucket += "/type-change"
			} else if ok && ref.Kind(av) == "object" && !ref.Equal(av, bv, o.Reading) {
				res.Bucket += "/nested"
			}
		}
	default:
		res.Bucket = "non-object"
	}
	res.Bucket += "/" + o.Name
	if fail != "" {
		res.Violation = fail + " | merge patch: " + text
	}
	return res
}

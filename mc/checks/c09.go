package checks

import (
	"fmt"
	"regexp"
	"strconv"
	"time"

	jd "github.com/josephburnett/jd/v2"

	"verif/mc/engine"
	"verif/mc/gen"
	"verif/mc/impl"
	"verif/mc/ref"
)

var hostileKeys = []string{"", "a/b", "m~n", "~1", "é", "0", "01", "-", "+1", "1e3", "a", "-1", "~0~1/", "a/b/c", "~~", "//", " ", "A", "007", "-0", "1.5", "0x1F", "0b1", "0o7", "010", "1_000", "http://example.com/x", "/usr/bin", "10", "20", "100"}

// HostileDocs: documents whose keys need pointer escaping, look like numbers or are "-".
func HostileDocs() *TextSet {
	return memoize("hostile", func() *TextSet {
		var out []V
		vals := []V{1.0, 2.0, []interface{}{1.0, 2.0}, []interface{}{2.0}, map[string]interface{}{"a": 1.0}}
		for _, k := range hostileKeys {
			for _, v := range vals {
				out = append(out, map[string]interface{}{k: ref.Clone(v)})
			}
			for _, k2 := range hostileKeys {
				out = append(out, map[string]interface{}{k: map[string]interface{}{k2: 1.0}})
				if k < k2 {
					out = append(out, map[string]interface{}{k: 1.0, k2: 2.0})
				}
			}
			out = append(out, map[string]interface{}{"x": []interface{}{map[string]interface{}{k: 1.0}, 3.0}})
			out = append(out, []interface{}{map[string]interface{}{k: []interface{}{1.0}}})
		}
		out = append(out, map[string]interface{}{}, []interface{}{})
		return NewTextSet(out)
	})
}

// HostileDocs2: keys that collide with a nested path when paths are printed or joined with a separator
// ({"a":{"b":1}} next to {"a b":1}, "a/b", "a.b", "a,b", "ab"), keys that start like a flag or like the append
// token ("-x", "--", "-1e3"), and keys that contain valid percent escapes ("a%20b", "100%25", "%41").
func HostileDocs2() *TextSet {
	return memoize("hostile2", func() *TextSet {
		var out []V
		for _, sep := range []string{" ", "/", ".", ",", "", "~1", "%20"} {
			joined := "a" + sep + "b"
			out = append(out,
				map[string]interface{}{"a": map[string]interface{}{"b": 1.0}, joined: 1.0, "z": []interface{}{1.0, 2.0}},
				map[string]interface{}{"a": map[string]interface{}{"b": 2.0}, joined: 1.0, "z": []interface{}{1.0, 2.0}},
				map[string]interface{}{"a": map[string]interface{}{"b": 1.0}, joined: 2.0, "z": []interface{}{1.0, 2.0}},
				map[string]interface{}{"a": map[string]interface{}{"b": 2.0}, joined: 3.0, "z": []interface{}{2.0}},
				map[string]interface{}{joined: []interface{}{1.0, 2.0, 3.0}}, map[string]interface{}{joined: []interface{}{1.0, 3.0}})
		}
		for _, k := range []string{"-x", "--", "-debug", "-1e3", "a%20b", "100%25", "%41", "%", "%zz", "a b", "+", "1-", "-1-"} {
			out = append(out, map[string]interface{}{k: 1.0}, map[string]interface{}{k: 2.0}, map[string]interface{}{k: []interface{}{1.0, 2.0, 3.0}}, map[string]interface{}{k: []interface{}{1.0, 3.0}},
				map[string]interface{}{"x": map[string]interface{}{k: []interface{}{2.0}}}, map[string]interface{}{"x": map[string]interface{}{k: []interface{}{2.0, 1.0}}})
		}
		out = append(out, map[string]interface{}{})
		return NewTextSet(out)
	})
}

// HostileArrays: arrays that change with context lines below keys that need escaping.
func HostileArrays() *TextSet {
	return memoize("hostile-arrays", func() *TextSet {
		var out []V
		arrs := []V{[]interface{}{1.0, 2.0, 3.0}, []interface{}{1.0, 3.0}, []interface{}{2.0}, []interface{}{1.0, 2.0, 3.0, 4.0}}
		for _, k := range hostileKeys {
			for _, a := range arrs {
				out = append(out, map[string]interface{}{k: ref.Clone(a)}, map[string]interface{}{"x": map[string]interface{}{k: []interface{}{ref.Clone(a), 0.0}}})
			}
		}
		return NewTextSet(out)
	})
}

func c09Spaces(tier string) []pairLeg {
	var legs []pairLeg
	add := func(name string, t *TextSet) { legs = append(legs, pairLeg{name, t, t}) }
	if tier == "thorough" {
		add("A4x6", Arr(4, "6"))
		add("A6x123", Arr(6, "123"))
		for _, p := range gen.Placements[1:] {
			add("A3x6@"+p.Name, Placed(Arr(3, "6"), p))
		}
		add("A3cont", Arr(3, "cont"))
		add("U4", U(4))
		add("hostile", HostileDocs())
		add("hostile-arrays", HostileArrays())
		add("hostile2", HostileDocs2())
		add("large", Large())
		add("E2", EditStates(2, 1200))
		add("deep", Deep(true))
		add("mixed", Mixed())
	} else {
		add("A3x6", Arr(3, "6"))
		add("A5x123", Arr(5, "123"))
		for _, p := range gen.Placements[1:] {
			add("A2x6@"+p.Name, Placed(Arr(2, "6"), p))
			add("A3x12@"+p.Name, Placed(Arr(3, "12"), p))
		}
		add("A2cont", Arr(2, "cont"))
		add("U3", U(3))
		add("hostile", thin(HostileDocs(), 220))
		add("hostile-arrays", thin(HostileArrays(), 150))
		add("hostile2", HostileDocs2())
		add("large", Large().Filter(func(v V) bool { return len(ref.JSON(v)) < 6000 }))
		add("deep", Deep(true))
		add("mixed", Mixed())
		add("E1", EditStates(1, 200))
	}
	return legs
}

func init() {
	engine.Register(&engine.Check{
		ID: "C09",
		Rule: "for every (a,b) of the list-mode universes (arrays with repeats in 4 placements, container elements, U_n, keys needing escaping / number-like / '-', edit graph): p=RenderPatch(a.Diff(b)) must be a well-formed RFC 6902 document and " +
			"the independent RFC 6902 evaluator must turn a into b; on a, b and every target one structural edit away from a where the native diff applies, the evaluator must apply p with the same result; refusal is accepted only for paths with number-like keys or '-'; non-trivial = diff non-empty",
		Bounds: func(tier string) map[string]interface{} {
			m := map[string]interface{}{"target_deviation_bound": 1}
			for _, l := range c09Spaces(tier) {
				m[l.Name] = map[string]int{"documents": l.A.Len(), "ordered_pairs": l.A.Len() * l.A.Len()}
			}
			return m
		},
		Enum: func(tier string, e *engine.Emitter) {
			for _, l := range c09Spaces(tier) {
				pairs(e, "c09", l.Name, l.A, l.B)
			}
		},
		Run: runC09,
		Required: func(string) []string {
			return []string{"translated/multi-hunk", "translated/single-hunk", "refused/number-like", "native-applies-elsewhere"}
		},
		Assume: []string{"RFC 6902 / 6901 evaluator in /verif/mc/ref (validated on RFC 6902 Appendix A at start-up)", "removing the root ('remove' with path \"\") is read permissively: the document becomes absent and only add \"\" may follow"},
		Budget: budget(7*time.Minute, 40*time.Minute),
	})
}

var numberLike = regexp.MustCompile(`^[+-]?[0-9]+$`)

// inexpressible reports why a hunk path has no JSON Pointer that jd's own reader would read
// back as the same path ("" if expressible).
func inexpressible(hs []ref.Hunk) string {
	for _, h := range hs {
		for _, pe := range h.Path {
			switch pe.Kind {
			case "key":
				if _, err := strconv.Atoi(pe.Key); err == nil && numberLike.MatchString(pe.Key) {
					return "number-like key"
				}
				if pe.Key == "-" {
					return "key '-'"
				}
			case "index":
			default:
				return "set path"
			}
		}
	}
	return ""
}

func runC09(c *engine.Case) engine.Result {
	res := engine.Result{}
	var fail, text, bucket string
	p := impl.Guard(func() {
		mk := func() jd.Diff { return impl.Read(c.A).Diff(impl.Read(c.B)) }
		d := mk()
		res.Transitions++
		hs, err := impl.Hunks(d)
		if err != nil {
			fail = "diff not observable: " + err.Error()
			return
		}
		why := inexpressible(hs)
		patch, rerr := mk().RenderPatch()
		res.Transitions++
		text = patch
		aV, bV := ref.MustParse(c.A), ref.MustParse(c.B)
		if rerr != nil {
			if why == "" {
				fail = "every path of the diff is expressible as a JSON Pointer but RenderPatch refused: " + rerr.Error()
				return
			}
			bucket = "refused/" + why
			return
		}
		ops, perr := ref.ParsePatch(patch)
		res.Traces++
		if perr != nil {
			fail = "RenderPatch output is not a well-formed RFC 6902 document: " + perr.Error()
			return
		}
		got, eerr := ref.Apply6902(aV, ops)
		if eerr != nil {
			fail = "the rendered JSON Patch does not apply to a under RFC 6902: " + eerr.Error()
			return
		}
		if !ref.Equal(got, bV, ref.List) {
			fail = "the rendered JSON Patch turns a into " + ref.JSON(got) + ", not b"
			return
		}
		// rendering is a read-only operation: a second rendering of the same diff value must be
		// the same patch, and the diff must still apply natively afterwards
		same := mk()
		p1, _ := same.RenderPatch()
		p2, err2 := same.RenderPatch()
		res.Transitions += 2
		if err2 != nil || p1 != p2 {
			fail = fmt.Sprintf("rendering the same diff twice gives different JSON Patch documents: %q then %q", p1, p2)
			return
		}
		if after := impl.Patch(c.A, same); !after.OK || !ref.Equal(after.Val, bV, ref.List) {
			fail = "after RenderPatch the native diff no longer turns a into b: " + after.String()
			return
		}
		bucket = "translated/" + hunkShape(len(hs))
		if why != "" {
			// The statement says such paths "are refused with an error": rendering one is reported, also when the
			// translation happens to be right for the RFC (checked above) and reads back (checked below).
			bucket += "/although-" + why
			back, rerr := jd.ReadPatchString(patch)
			var after impl.PatchOutcome
			if rerr == nil {
				after = impl.Patch(c.A, back)
			}
			res.Transitions += 2
			if rerr != nil || !after.OK || !ref.Equal(after.Val, bV, ref.List) {
				fail = fmt.Sprintf("a path with a %s was rendered instead of refused, and jd's own reader does not read the patch back as the same change (%v %s)", why, rerr, after.String())
				return
			}
			fail = fmt.Sprintf("a path with a %s was rendered instead of refused with an error", why)
			return
		}
		if len(hs) == 0 {
			return
		}
		// other targets on which the native diff applies
		targets := []string{c.B}
		if len(c.A) <= 600 { // the neighbourhood of a big document is as big as the document squared
			for _, e := range gen.Edits(aV, c03EditAlpha, []string{"k", "a"}) {
				targets = append(targets, ref.JSON(e))
			}
		} else {
			for _, e := range truncations(aV) {
				targets = append(targets, ref.JSON(e))
			}
		}
		elsewhere := 0
		for _, ct := range targets {
			nat := impl.Patch(ct, mk())
			res.Transitions++
			if !nat.OK {
				continue
			}
			elsewhere++
			res.Traces++
			cV := ref.MustParse(ct)
			r, err := ref.Apply6902(cV, ops)
			if err != nil {
				fail = fmt.Sprintf("the native diff applies to %s (result %s) but the JSON Patch does not: %v", ct, ref.JSON(nat.Val), err)
				return
			}
			if !ref.Equal(r, nat.Val, ref.List) {
				fail = fmt.Sprintf("on %s the native diff gives %s but the JSON Patch gives %s", ct, ref.JSON(nat.Val), ref.JSON(r))
				return
			}
		}
		if elsewhere > 0 {
			bucket += "/native-applies-elsewhere"
		}
	})
	if p != "" {
		fail = p
	}
	res.Bucket = bucket
	res.Nontrivial = bucket != "translated/empty-diff"
	if fail != "" {
		res.Violation = fail + " | patch: " + text
	}
	return res
}

package checks

import (
	"fmt"
	"strings"
	"time"

	"verif/mc/engine"
	"verif/mc/gen"
	"verif/mc/impl"
	"verif/mc/ref"
)

var c05Opts = []string{"none", "SET", "MULTISET", "SETKEYS:id", "SETKEYS:id,t", "MERGE", "SET+MERGE", "MULTISET+MERGE"}

func stripMerge(o string) string {
	o = strings.TrimSuffix(o, "+MERGE")
	if o == "MERGE" {
		return "none"
	}
	return o
}

func c05Legs(tier, o string) []pairLeg {
	// C05 quantifies over documents with nulls too, also for the MERGE option sets.
	legs := pairSpace(tier, stripMerge(o))
	if tier != "thorough" {
		// the biconditional needs far fewer big-array pairs than the round trip does
		var out []pairLeg
		for _, l := range legs {
			if l.A.Len() > 800 {
				l.A = thin(l.A, 800)
				l.B = l.A
			}
			out = append(out, l)
		}
		legs = out
	}
	return legs
}

func init() {
	engine.Register(&engine.Check{
		ID: "C05",
		Rule: "all ordered pairs (a,b) of each universe (closed under permutation / duplication for the non-list readings, nulls included) x each option set, " +
			"plus numeric pairs x Precision(0.1) and the hash-alias alphabet; checks len(a.Diff(b,o))==0 <=> a.Equals(b,o) <=> reference equality; " +
			"CLI leg: exit status 0/1 of both binaries on a reduced set; non-trivial = a and b differ as text",
		Bounds: func(tier string) map[string]interface{} {
			m := map[string]interface{}{}
			for _, o := range c05Opts {
				for _, l := range c05Legs(tier, o) {
					m[l.Name+"/"+o] = map[string]int{"documents": l.A.Len(), "ordered_pairs": l.A.Len() * l.B.Len()}
				}
			}
			m["precision_docs"] = c04PrecisionDocs().Len()
			m["cli_cases"] = len(c05CLICases(tier))
			return m
		},
		Enum: func(tier string, e *engine.Emitter) {
			pr := c04PrecisionDocs()
			pairs(e, "c05:PRECISION:0.1", "precision", pr, pr)
			pairs(e, "c05:PRECISION:0.2", "precision", pr, pr)
			pairs(e, "c05:PRECISION:1", "precision", pr, pr)
			pairs(e, "c05:PRECISION:0.01", "precision", pr, pr)
			ex := c04ExactDocs()
			pairs(e, "c05:PRECISION:0.5", "precision-exact-boundary", ex, ex)
			al := NewTextSet(AliasDocs())
			for _, o := range []string{"none", "SET", "MULTISET"} {
				pairs(e, "c05:"+o, "alias/"+o, al, al)
			}
			for _, cc := range c05CLICases(tier) {
				e.Emit(cc)
			}
			// the same biconditional on documents that are live results of Patch (built under one
			// option set, queried under another): start from non-initial states
			lv := c05LiveDocs()
			for _, con := range []string{"none", "SET", "MULTISET", "replace:none", "replace:SET", "replace:MULTISET"} {
				for _, q := range []string{"none", "SET", "MULTISET"} {
					pairs(e, "c05live:"+con+":"+q, "live/"+con+"->"+q, lv, lv)
				}
			}
			lv4 := c04LiveDocs()
			for _, con := range []string{"leaf:none", "leaf:SET", "leaf:MULTISET", "leaf:SETKEYS:id"} {
				for _, q := range []string{"none", "SET", "MULTISET"} {
					pairs(e, "c05live:"+con+":"+q, "live/"+con+"->"+q, lv4, lv4)
				}
			}
			kl := KeyedLoose()
			pairs(e, "c05:SETKEYS:id", "Kloose/SETKEYS:id", kl, kl)
			for _, o := range c05Opts {
				for _, l := range c05Legs(tier, o) {
					pairs(e, "c05:"+o, l.Name+"/"+o, l.A, l.B)
				}
			}
		},
		Run:      runC05,
		Required: func(string) []string { return []string{"equal+empty", "unequal+nonempty", "equal-by-reading-only"} },
		Assume:   []string{"accidental FNV collisions are out of reach; Precision is never judged on the boundary |x-y| = eps"},
		Budget:   budget(7*time.Minute, 40*time.Minute),
	})
}

func c05LiveDocs() *TextSet {
	return memoize("c05-live", func() *TextSet {
		vs := append([]V{}, Arr(3, "123").Vals...)
		vs = append(vs, Placed(Arr(2, "12"), gen.Placements[1]).Vals...)
		vs = append(vs, Placed(Arr(2, "12"), gen.Placements[2]).Vals...)
		vs = append(vs, []interface{}{[]interface{}{1.0, 2.0}, []interface{}{2.0, 1.0}}, []interface{}{[]interface{}{2.0, 1.0}, []interface{}{1.0, 2.0}}, 1.0, map[string]interface{}{"k": 1.0})
		return NewTextSet(vs)
	})
}

func runC05(c *engine.Case) engine.Result {
	if strings.HasPrefix(c.Kind, "c05cli:") {
		return runC05CLI(c)
	}
	if strings.HasPrefix(c.Kind, "c05cliy:") {
		return runC05CLIYaml(c)
	}
	construct := ""
	if strings.HasPrefix(c.Kind, "c05live:") {
		rest := strings.TrimPrefix(c.Kind, "c05live:")
		i := strings.LastIndex(rest, ":")
		construct = rest[:i]
		c = &engine.Case{Kind: "c05:" + rest[i+1:], Leg: c.Leg, A: c.A, B: c.B}
	}
	o := impl.Options(optOf(c.Kind))
	aV, bV := ref.MustParse(c.A), ref.MustParse(c.B)
	var want bool
	if o.Eps > 0 {
		if ref.NearBoundary(aV, bV, o.Eps) {
			return engine.Result{Bucket: "no-verdict: on the eps boundary"}
		}
		want = ref.EqualEps(aV, bV, o.Eps)
	} else {
		want = ref.Equal(aV, bV, o.Reading)
	}
	res := engine.Result{Traces: 1}
	var fail string
	p := impl.Guard(func() {
		a, b := impl.Read(c.A), impl.Read(c.B)
		if construct != "" {
			// the reference judges the contents the live values actually have (a set-mode patch may
			// legitimately have dropped duplicates)
			if la, ok := impl.Live(c.A, construct); ok {
				a = la
				aV, _ = impl.ToV(la)
			}
			if lb, ok := impl.Live(c.B, construct); ok {
				b = lb
				bV, _ = impl.ToV(lb)
			}
			want = ref.Equal(aV, bV, o.Reading)
		}
		eq := a.Equals(b, o.Opts...)
		d := a.Diff(b, o.Opts...)
		res.Transitions += 2
		empty := len(d) == 0
		switch {
		case empty != eq:
			fail = fmt.Sprintf("Diff empty=%v but Equals=%v (reference: equal=%v) | diff:\n%s", empty, eq, want, d.Render())
		case empty != want:
			fail = fmt.Sprintf("Diff empty=%v and Equals=%v, but the reference says equal=%v | diff:\n%s", empty, eq, want, d.Render())
		}
	})
	if p != "" {
		fail = p
	}
	switch {
	case want && c.A != c.B && !ref.Equal(aV, bV, ref.List):
		res.Bucket = "equal-by-reading-only"
	case want:
		res.Bucket = "equal+empty"
	default:
		res.Bucket = "unequal+nonempty"
	}
	res.Bucket += "/" + o.Name
	if fail != "" && c.A == c.B {
		fail = "identical inputs: " + fail
	}
	if construct != "" {
		res.Bucket = "live/" + res.Bucket
		if fail != "" {
			fail = "with a and b built as live results of Patch under " + construct + ": " + fail
		}
	}
	res.Nontrivial = c.A != c.B
	res.Violation = fail
	return res
}

package checks

import (
	"fmt"
	"strconv"
	"strings"
	"time"

	jd "github.com/josephburnett/jd/v2"

	"verif/mc/engine"
	"verif/mc/gen"
	"verif/mc/impl"
	"verif/mc/ref"
)

// c03Spaces: list-mode (a,b) universes whose diffs are then cut into sub-sequences and applied
// to perturbed targets.
func c03Spaces(tier string) []pairLeg {
	var legs []pairLeg
	add := func(name string, t *TextSet) { legs = append(legs, pairLeg{name, t, t}) }
	if tier == "thorough" {
		add("A4x6", Arr(4, "6"))
		add("A5x123", Arr(5, "123"))
		for _, p := range gen.Placements[1:] {
			add("A3x6@"+p.Name, Placed(Arr(3, "6"), p))
		}
		add("A3cont", Arr(3, "cont"))
		add("U4", thin(noVoid(U(4)), 500))
		add("E2", EditStates(2, 600))
		add("deep", Deep(true))
	} else {
		add("A3x6", Arr(3, "6"))
		add("A4x123", Arr(4, "123"))
		for _, p := range gen.Placements[1:] {
			add("A2x6@"+p.Name, Placed(Arr(2, "6"), p))
			add("A3x12@"+p.Name, Placed(Arr(3, "12"), p))
		}
		add("A2cont", Arr(2, "cont"))
		add("U3", noVoid(U(3)))
		add("E1", EditStates(1, 150))
		add("deep", Deep(false))
		add("mixed", Mixed())
		add("large", Large().Filter(func(v V) bool { return ref.Nodes(v) <= 20 }))
	}
	// complete triples over arrays of numbers that are neighbouring float64 values
	add("Uulp", UlpArrays())
	add("Ustr", LookAlikeStringArrays())
	return legs
}

// UlpArrays: arrays (length <= 2, at the root and under a key) over numbers one ulp apart.
func UlpArrays() *TextSet {
	return memoize("ulp-arrays", func() *TextSet {
		alpha := []V{0.3, 0.30000000000000004, 9007199254740992.0, 9007199254740994.0}
		var out []V
		for _, a := range gen.Arrays(2, alpha) {
			out = append(out, a, map[string]interface{}{"m": a})
		}
		return NewTextSet(out)
	})
}

// LookAlikeStringArrays: arrays (length <= 2, at the root and under a key) over strings that differ only in line
// ends, white space or Unicode composition.
func LookAlikeStringArrays() *TextSet {
	return memoize("lookalike-strings", func() *TextSet {
		alpha := []V{"x\r\ny", "x\ny", "x\ry", "a\tb", "a  b", "\u00e9", "e\u0301"}
		var out []V
		for _, a := range gen.Arrays(2, alpha) {
			out = append(out, a, map[string]interface{}{"m": a})
		}
		return NewTextSet(out)
	})
}

var c03EditAlpha = []V{1.0, 2.0, "a", []interface{}{1.0}}

type editCache struct {
	key   string
	texts []string
}

// targetsFor returns the perturbed targets around a, by number of edits (deviations).
// truncations returns the documents in which one array (at any depth, up to 24 elements) is cut
// to a proper prefix or suffix ("shortened arrays").
func truncations(v V) []V {
	var out []V
	var rec func(cur V, rebuild func(V) V)
	rec = func(cur V, rebuild func(V) V) {
		switch c := cur.(type) {
		case []interface{}:
			if len(c) >= 2 && len(c) <= 24 {
				for k := 0; k < len(c); k++ {
					out = append(out, rebuild(append([]interface{}{}, c[:k]...)))
					if k > 0 {
						out = append(out, rebuild(append([]interface{}{}, c[k:]...)))
					}
				}
			}
			for i := range c {
				i := i
				rec(c[i], func(x V) V {
					n := append([]interface{}{}, c...)
					n[i] = x
					return rebuild(n)
				})
			}
		case map[string]interface{}:
			for _, k := range ref.SortedKeys(c) {
				k := k
				rec(c[k], func(x V) V {
					n := map[string]interface{}{}
					for kk, vv := range c {
						n[kk] = vv
					}
					n[k] = x
					return rebuild(n)
				})
			}
		}
	}
	rec(v, func(x V) V { return x })
	return out
}

func targetsFor(aV V, deviations int) []string {
	seen := map[string]bool{}
	var out []string
	for _, e := range truncations(aV) {
		t := ref.JSON(e)
		if !seen[t] {
			seen[t] = true
			out = append(out, t)
		}
	}
	frontier := []V{aV}
	for d := 0; d < deviations; d++ {
		var next []V
		for _, s := range frontier {
			for _, e := range gen.Edits(s, c03EditAlpha, []string{"k", "z"}) {
				if ref.IsVoid(e) {
					continue
				}
				t := ref.JSON(e)
				if !seen[t] {
					seen[t] = true
					out = append(out, t)
					next = append(next, e)
				}
			}
		}
		frontier = next
	}
	return out
}

func init() {
	engine.Register(&engine.Check{
		ID: "C03",
		Rule: "for every (a,b) of the list-mode universes: d=a.Diff(b); for every sub-sequence d' of its hunks (all 2^h masks, h<=6; else all masks dropping <=2 or keeping <=2 hunks) " +
			"and every target c in {a, b, every document one (quick) or two (thorough, small arrays) structural edits away from a}, plus all U_n triples: " +
			"the real c.Patch(d') is compared with the reference hunk interpreter (accept/reject and result); non-trivial = d' non-empty and c != a",
		Bounds: func(tier string) map[string]interface{} {
			m := map[string]interface{}{"target_deviation_bound": 1, "edit_alphabet": []string{"1", "2", "\"a\"", "[1]"}}
			if tier == "thorough" {
				m["target_deviation_bound"] = "1 everywhere, 2 for documents of at most 7 characters"
			}
			for _, l := range c03Spaces(tier) {
				m[l.Name] = map[string]int{"documents": l.A.Len(), "ordered_pairs": l.A.Len() * l.A.Len()}
			}
			return m
		},
		Enum: enumC03,
		Run:  runC03,
		Required: func(string) []string {
			return []string{"accept", "reject: before mismatch", "reject: after mismatch", "reject: remove mismatch", "reject: boundary mismatch", "reject: index beyond array", "reject: path missing", "reject: wrong container kind"}
		},
		Assume: []string{"hunk semantics = Appendix A of DESIGN.md (written from the format documentation)", "strict list-mode diffs only"},
		Budget: budget(8*time.Minute, 45*time.Minute),
	})
}

func masksFor(h int) []uint64 {
	var out []uint64
	if h <= 6 {
		for m := uint64(1); m < (1 << uint(h)); m++ {
			out = append(out, m)
		}
		return out
	}
	full := (uint64(1) << uint(h)) - 1
	seen := map[uint64]bool{}
	add := func(m uint64) {
		if m != 0 && !seen[m] {
			seen[m] = true
			out = append(out, m)
		}
	}
	add(full)
	for i := 0; i < h; i++ {
		add(full &^ (1 << uint(i)))
		add(1 << uint(i))
		for j := i + 1; j < h; j++ {
			add(full &^ (1 << uint(i)) &^ (1 << uint(j)))
			add(1<<uint(i) | 1<<uint(j))
		}
	}
	return out
}

// wideHunks: hand-written hunks with 0..3 lines of context on each side ('[' / ']' where the context reaches the
// array boundary), built to match the array l at position i; the targets decide whether they apply elsewhere.
func wideHunks(l []interface{}, under bool) []ref.Hunk {
	var out []ref.Hunk
	ctx := func(from, n int) ([]V, bool) {
		var c []V
		for k := 0; k < n; k++ {
			pos := from + k
			switch {
			case pos == -1 || pos == len(l):
				c = append(c, ref.Void{})
			case pos < -1 || pos > len(l):
				return nil, false
			default:
				c = append(c, l[pos])
			}
		}
		return c, true
	}
	for i := 0; i <= len(l); i++ {
		for r := 0; r <= 2 && i+r <= len(l); r++ {
			for _, add := range [][]V{nil, {9.0}, {9.0, 8.0}} {
				if r == 0 && len(add) == 0 {
					continue
				}
				for m := 0; m <= 3; m++ {
					before, ok := ctx(i-m, m)
					if !ok {
						continue
					}
					for n := 0; n <= 3; n++ {
						after, ok := ctx(i+r, n)
						if !ok || (m <= 1 && n <= 1) { // one line each side is the generated form, covered above
							continue
						}
						path := []ref.PE{ref.I(i)}
						if under {
							path = []ref.PE{ref.K("k"), ref.I(i)}
						}
						out = append(out, ref.Hunk{Path: path, Before: before, Remove: append([]V{}, l[i:i+r]...), Add: add, After: after})
					}
				}
			}
		}
	}
	return out
}

func enumC03(tier string, e *engine.Emitter) {
	wl := 3
	if tier == "thorough" {
		wl = 4
	}
	wide := Arr(wl, "123")
	for _, under := range []bool{false, true} {
		for _, lv := range wide.Vals {
			for _, h := range wideHunks(lv.([]interface{}), under) {
				x := ref.EncodeHunks([]ref.Hunk{h})
				for _, tv := range wide.Vals {
					var t V = tv
					if under {
						t = map[string]interface{}{"k": tv}
					}
					e.Emit(engine.Case{Kind: "c03w", Leg: "wide-context", C: ref.JSON(t), X: x})
				}
			}
		}
	}
	hk := engine.HS("c03")
	for _, l := range c03Spaces(tier) {
		isU := l.Name[0] == 'U'
		for i, at := range l.A.Texts {
			if e.Stopped() {
				return
			}
			var targets []string
			for j, bt := range l.B.Texts {
				if !e.Mine(engine.HashParts(hk, l.A.Hash[i], l.B.Hash[j], 0, 0)) {
					continue
				}
				if targets == nil {
					dev := 1
					if tier == "thorough" && len(at) <= 7 {
						dev = 2
					}
					targets = targetsFor(l.A.Vals[i], dev)
				}
				h := 0
				impl.Guard(func() { h = len(impl.Read(at).Diff(impl.Read(bt))) })
				if h == 0 {
					continue
				}
				if strings.Contains(l.Name, "@key") || strings.Contains(l.Name, "@deep") {
					// the same strict hunks, as text, followed by one merge hunk on a fresh key: the strict part must
					// keep its strict meaning (all hunks, and the last hunk alone)
					for _, m := range []uint64{(1 << uint(h)) - 1, 1 << uint(h-1)} {
						ms := strconv.FormatUint(m, 10)
						for k, ct := range append([]string{at, bt}, targets...) {
							if k < 10 {
								e.Do(engine.Case{Kind: "c03m", Leg: l.Name + "/then-merge", A: at, B: bt, C: ct, X: ms})
							}
						}
					}
				}
				if h >= 2 {
					// hand-edited order: the hunks reversed, and the first two swapped; the reference applies
					// them one after the other in the order given, like the format says
					for _, ord := range []string{"rev", "swap"} {
						for k, ct := range append([]string{at, bt}, targets...) {
							if k < 12 {
								e.Do(engine.Case{Kind: "c03o", Leg: l.Name + "/reordered", A: at, B: bt, C: ct, X: ord})
							}
						}
					}
				}
				for _, m := range masksFor(h) {
					ms := strconv.FormatUint(m, 10)
					e.Do(engine.Case{Kind: "c03", Leg: l.Name, A: at, B: bt, C: at, X: ms})
					e.Do(engine.Case{Kind: "c03", Leg: l.Name, A: at, B: bt, C: bt, X: ms})
					if isU {
						tri := l.A.Texts
						if len(tri) > 200 {
							tri = U(3).Texts[1:] // thorough: pairs of U_4, targets of U_3
						}
						for _, ct := range tri {
							e.Do(engine.Case{Kind: "c03", Leg: l.Name + "-triples", A: at, B: bt, C: ct, X: ms})
						}
					} else {
						for _, ct := range targets {
							e.Do(engine.Case{Kind: "c03", Leg: l.Name, A: at, B: bt, C: ct, X: ms})
						}
					}
				}
			}
		}
	}
}

func subDiff(d jd.Diff, mask uint64) jd.Diff {
	var out jd.Diff
	for i := range d {
		if mask&(1<<uint(i)) != 0 {
			out = append(out, d[i])
		}
	}
	return out
}

func runC03(c *engine.Case) engine.Result {
	mask, _ := strconv.ParseUint(c.X, 10, 64)
	res := engine.Result{}
	var fail string
	var bucket string
	p := impl.Guard(func() {
		var sub jd.Diff
		if c.Kind == "c03w" {
			sub = impl.Diff(ref.DecodeHunks(c.X))
		} else if c.Kind == "c03o" {
			d := impl.Read(c.A).Diff(impl.Read(c.B))
			sub = append(jd.Diff{}, d...)
			if c.X == "rev" {
				for i, j := 0, len(sub)-1; i < j; i, j = i+1, j-1 {
					sub[i], sub[j] = sub[j], sub[i]
				}
			} else if len(sub) >= 2 {
				sub[0], sub[1] = sub[1], sub[0]
			}
		} else {
			sub = subDiff(impl.Read(c.A).Diff(impl.Read(c.B)), mask)
		}
		hs, err := impl.Hunks(sub)
		res.Transitions++
		if err != nil {
			fail = "diff not observable: " + err.Error()
			return
		}
		cV := ref.MustParse(c.C)
		want, _, rej := ref.ApplyHunks(cV, hs)
		if rej != nil && rej.NoVerdict {
			bucket = "no-verdict: " + rej.Reason
			return
		}
		if c.Kind == "c03m" {
			if _, isObj := cV.(map[string]interface{}); !isObj {
				bucket = "then-merge/skipped: root is not an object"
				return
			}
			text := sub.Render() + "^ {\"Merge\":true}\n@ [\"zz\"]\n+ 1\n"
			rd, err := jd.ReadDiffString(text)
			if err != nil {
				fail = "strict hunks followed by a merge hunk are not readable: " + err.Error() + " | text:\n" + text
				return
			}
			got := impl.Patch(c.C, rd)
			res.Transitions++
			res.Traces++
			if rej != nil {
				bucket = "then-merge/reject"
				if got.OK {
					fail = fmt.Sprintf("the strict part does not match the target (%s) but Patch succeeded and returned %s | text:\n%s", rej.Error(), ref.JSON(got.Val), text)
				}
				return
			}
			bucket = "then-merge/accept"
			wv, ok := want.ToV().(map[string]interface{})
			if !ok {
				bucket = "then-merge/skipped: result is not an object"
				return
			}
			wv["zz"] = 1.0
			if !got.OK || !ref.Equal(got.Val, wv, ref.List) {
				fail = fmt.Sprintf("strict hunks then merge hunk: Patch gives %s, expected %s | text:\n%s", got.String(), ref.JSON(wv), text)
			}
			return
		}
		got := impl.Patch(c.C, sub)
		res.Transitions++
		res.Traces++
		switch {
		case rej != nil:
			bucket = "reject: " + rej.Reason
			if got.Panic != "" {
				fail = fmt.Sprintf("the patch does not match the target (%s) and Patch crashed: %s", rej.Error(), got.Panic)
			} else if got.OK {
				fail = fmt.Sprintf("the patch does not match the target (%s) but Patch succeeded and returned %s", rej.Error(), ref.JSON(got.Val))
			}
		default:
			bucket = "accept"
			if !got.OK {
				fail = fmt.Sprintf("every expectation of the patch holds on the target (reference result %s) but Patch failed: %s", ref.JSON(want.ToV()), got.String())
			} else if !ref.CompareMixed(want, got.Val) {
				fail = fmt.Sprintf("Patch returned %s, the hunks say %s", ref.JSON(got.Val), ref.JSON(want.ToV()))
			}
		}
		if fail != "" {
			fail += " | patch:\n" + sub.Render()
		}
	})
	if p != "" {
		fail = "harness/diff " + p
	}
	res.Bucket = bucket
	res.Nontrivial = c.C != c.A
	if c.Kind == "c03o" {
		res.Bucket = "reordered/" + bucket
	}
	if c.Kind == "c03w" {
		res.Bucket = "wide/" + bucket
		res.Nontrivial = true
	}
	res.Violation = fail
	return res
}

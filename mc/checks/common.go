// Package checks holds one explorer per property.
package checks

import (
	"fmt"
	"math"
	"strings"
	"sync"
	"time"

	jd "github.com/josephburnett/jd/v2"

	"verif/mc/engine"
	"verif/mc/gen"
	"verif/mc/impl"
	"verif/mc/ref"
)

type V = ref.V

func f(x float64) V { return x }

var (
	scalars5 = []V{1.0, 2.0, "a", true, nil}
	scalars3 = []V{1.0, 2.0, "a"}
	keys2    = []string{"a", "b"}
)

// TextSet is a de-duplicated list of documents with their harness JSON text and hashes.
type TextSet struct {
	Vals  []V
	Texts []string
	Hash  []uint64
}

func NewTextSet(vs []V) *TextSet {
	vs = gen.Dedup(vs)
	t := &TextSet{Vals: vs, Texts: make([]string, len(vs)), Hash: make([]uint64, len(vs))}
	for i, v := range vs {
		t.Texts[i] = ref.JSON(v)
		t.Hash[i] = engine.HS(t.Texts[i])
	}
	return t
}

func (t *TextSet) Filter(keep func(V) bool) *TextSet {
	var vs []V
	for _, v := range t.Vals {
		if keep(v) {
			vs = append(vs, v)
		}
	}
	return NewTextSet(vs)
}

func (t *TextSet) Len() int { return len(t.Vals) }

var memo sync.Map

func memoize(key string, build func() *TextSet) *TextSet {
	if v, ok := memo.Load(key); ok {
		return v.(*TextSet)
	}
	t := build()
	memo.Store(key, t)
	return t
}

// U returns U_n: every document with at most n nodes (depth <= 3) plus the void document.
func U(n int) *TextSet {
	return memoize(fmt.Sprintf("U%d", n), func() *TextSet {
		sc := scalars5
		if n >= 5 {
			sc = []V{1.0, 2.0, "a", nil}
		}
		docs := gen.Docs(n, 3, sc, keys2)
		docs = append([]V{ref.Void{}}, docs...)
		return NewTextSet(docs)
	})
}

// UArr returns the documents of U(n) with every array additionally permuted and with single
// duplications, so that equal-as-set / unequal-as-list pairs exist.
func UPerm(n int) *TextSet {
	return memoize(fmt.Sprintf("UPerm%d", n), func() *TextSet {
		base := U(n)
		out := append([]V{}, base.Vals...)
		for _, v := range base.Vals {
			out = append(out, permDup(v)...)
		}
		return NewTextSet(out)
	})
}

// permDup returns variants of v in which one array (at any depth) is permuted or has one
// element duplicated.
func permDup(v V) []V {
	var out []V
	var rec func(cur V, rebuild func(V) V)
	rec = func(cur V, rebuild func(V) V) {
		switch c := cur.(type) {
		case []interface{}:
			if len(c) >= 2 && len(c) <= 4 {
				for _, p := range gen.Permutations(c) {
					out = append(out, rebuild(p))
				}
			}
			for i := range c {
				n := make([]interface{}, 0, len(c)+1)
				n = append(n, c...)
				n = append(n, c[i])
				out = append(out, rebuild(n))
			}
			for i := range c {
				i := i
				rec(c[i], func(x V) V {
					n := append([]interface{}{}, c...)
					n[i] = x
					return rebuild(n)
				})
			}
		case map[string]interface{}:
			for _, k := range ref.SortedKeys(c) {
				k := k
				rec(c[k], func(x V) V {
					n := map[string]interface{}{}
					for kk, vv := range c {
						n[kk] = vv
					}
					n[k] = x
					return rebuild(n)
				})
			}
		}
	}
	rec(v, func(x V) V { return x })
	return out
}

var elems6 = []V{1.0, 2.0, 3.0, "a", []interface{}{1.0}, map[string]interface{}{"a": 1.0}}
var elemsContainers = []V{[]interface{}{1.0}, []interface{}{2.0}, map[string]interface{}{"a": 1.0}, map[string]interface{}{"a": 2.0}, 1.0}

// Arr returns all arrays of length <= L over a named alphabet.
func Arr(L int, alpha string) *TextSet {
	return memoize(fmt.Sprintf("Arr%d-%s", L, alpha), func() *TextSet {
		var el []V
		switch alpha {
		case "6":
			el = elems6
		case "123":
			el = []V{1.0, 2.0, 3.0}
		case "12":
			el = []V{1.0, 2.0}
		case "cont":
			el = elemsContainers
		default:
			panic("alpha " + alpha)
		}
		return NewTextSet(gen.Arrays(L, el))
	})
}

// Placed wraps every document of t with placement p.
func Placed(t *TextSet, p gen.Placement) *TextSet {
	vs := make([]V, len(t.Vals))
	for i, v := range t.Vals {
		vs[i] = p.Wrap(v)
	}
	return NewTextSet(vs)
}

// Keyed returns the K universe for SetKeys(id) (two=false) or SetKeys(id,t) (two=true):
// arrays of at most maxObjs member objects carrying all set keys with unique key values,
// optionally mixed with a scalar member, at the root and under "items".
func Keyed(maxObjs int, two bool) *TextSet {
	return memoize(fmt.Sprintf("Keyed%d-%v", maxObjs, two), func() *TextSet {
		vals := []V{1.0, 2.0, []interface{}{1.0, 2.0},
			[]interface{}{map[string]interface{}{"id": 1.0, "t": "x", "v": 1.0}},
			[]interface{}{map[string]interface{}{"id": 1.0, "t": "x", "v": 2.0}},
			[]interface{}{map[string]interface{}{"id": 2.0, "t": "x", "v": 1.0}, map[string]interface{}{"id": 1.0, "t": "x", "v": 1.0}},
		}
		type ident struct {
			id float64
			t  string
		}
		var idents []ident
		if two {
			idents = []ident{{1, "x"}, {1, "y"}, {2, "x"}}
		} else {
			idents = []ident{{1, "x"}, {2, "x"}, {3, "x"}}
		}
		var members [][]V // per identity: possible member objects
		for _, id := range idents {
			var ms []V
			for _, v := range vals {
				ms = append(ms, map[string]interface{}{"id": id.id, "t": id.t, "v": Vclone(v)})
			}
			ms = append(ms, map[string]interface{}{"id": id.id, "t": id.t})
			members = append(members, ms)
		}
		var arrays []V
		// all ordered selections of distinct identities, up to maxObjs, each with every member variant
		var rec func(used []bool, cur []interface{})
		rec = func(used []bool, cur []interface{}) {
			arrays = append(arrays, append([]interface{}{}, cur...))
			if len(cur) >= maxObjs {
				return
			}
			for i := range idents {
				if used[i] {
					continue
				}
				used[i] = true
				for _, m := range members[i] {
					rec(used, append(cur, m))
				}
				used[i] = false
			}
		}
		rec(make([]bool, len(idents)), nil)
		var out []V
		for _, a := range arrays {
			out = append(out, a)
		}
		// scalar-mixed and nested placements on a thinner slice
		for i, a := range arrays {
			if i%3 == 0 {
				out = append(out, map[string]interface{}{"items": a})
			}
			if i%5 == 0 {
				arr := a.([]interface{})
				out = append(out, append(append([]interface{}{}, arr...), 7.0))
			}
			if i%7 == 0 {
				// a non-object member in front of the keyed members
				arr := a.([]interface{})
				out = append(out, append([]interface{}{"s"}, arr...))
				out = append(out, map[string]interface{}{"items": append([]interface{}{[]interface{}{1.0}, nil}, arr...)})
			}
		}
		return NewTextSet(out)
	})
}

func Vclone(v V) V { return ref.Clone(v) }

var editSeeds = []V{
	ref.MustParse(`{"a":[1,2,[3,4],{"b":[5,6]}],"c":{"d":[1,1,2]}}`),
	ref.MustParse(`[[1,2,1],{"k":[{"j":[2,3]}]},3,3]`),
}

// EditStates returns the BFS states of the edit graph to the given depth.
func EditStates(depth, cap int) *TextSet {
	return memoize(fmt.Sprintf("Edit%d-%d", depth, cap), func() *TextSet {
		alpha := []V{1.0, 3.0, []interface{}{1.0}}
		return NewTextSet(gen.EditGraph(editSeeds, depth, alpha, []string{"a", "z"}, cap))
	})
}

// pairs enumerates all ordered pairs of a text set for one kind.
func pairs(e *engine.Emitter, kind, leg string, ta, tb *TextSet) {
	hk := engine.HS(kind)
	empty := engine.HS("")
	for i := range ta.Texts {
		if e.Stopped() {
			return
		}
		for j := range tb.Texts {
			if e.Mine(engine.HashParts(hk, ta.Hash[i], tb.Hash[j], empty, empty)) {
				e.Do(engine.Case{Kind: kind, Leg: leg, A: ta.Texts[i], B: tb.Texts[j]})
			}
		}
	}
}

func nullFree(t *TextSet) *TextSet {
	return t.Filter(func(v V) bool { return !ref.HasNull(v) })
}

func noVoid(t *TextSet) *TextSet {
	return t.Filter(func(v V) bool { return !ref.IsVoid(v) })
}

func optOf(kind string) string {
	i := strings.Index(kind, ":")
	if i < 0 {
		return "none"
	}
	return kind[i+1:]
}

func budget(quick, thorough time.Duration) func(string) time.Duration {
	return func(tier string) time.Duration {
		if tier == "thorough" {
			return thorough
		}
		return quick
	}
}

func hunkShape(n int) string {
	switch {
	case n == 0:
		return "empty-diff"
	case n == 1:
		return "single-hunk"
	}
	return "multi-hunk"
}

// Deep returns documents whose interesting part sits below a chain of 3, 5, 6 or 7 object keys
// (path slices of those lengths have spare capacity, so a path that is appended to without
// being cloned is overwritten by the next sibling): leaf objects over the keys x,y,z with
// values 1,2 or absent, and leaf arrays over {1,2} up to length 3.
func Deep(full bool) *TextSet {
	return memoize(fmt.Sprintf("Deep-%v", full), func() *TextSet {
		var leaves []V
		opts := []V{ref.Void{}, 1.0, 2.0}
		for _, x := range opts {
			for _, y := range opts {
				for _, z := range opts {
					o := map[string]interface{}{}
					if !ref.IsVoid(x) {
						o["x"] = x
					}
					if !ref.IsVoid(y) {
						o["y"] = y
					}
					if !ref.IsVoid(z) {
						o["z"] = z
					}
					leaves = append(leaves, o)
				}
			}
		}
		leaves = append(leaves, gen.Arrays(3, []V{1.0, 2.0})...)
		depths := []int{3}
		if full {
			depths = []int{3, 5, 6, 7}
		}
		var out []V
		for _, d := range depths {
			for _, l := range leaves {
				var v V = ref.Clone(l)
				for i := d - 1; i >= 0; i-- {
					v = map[string]interface{}{string(rune('a' + i)): v}
				}
				out = append(out, v)
			}
		}
		return NewTextSet(out)
	})
}

// Mixed returns objects holding an array next to scalar members, and arrays of arrays, so that
// one diff has a list hunk (with context) followed or preceded by hunks of other kinds.
func Mixed() *TextSet {
	return memoize("Mixed", func() *TextSet {
		var out []V
		arrs := gen.Arrays(3, []V{1.0, 2.0, 3.0})
		for i, a := range arrs {
			for _, b := range []V{5.0, 6.0} {
				out = append(out, map[string]interface{}{"a": a, "b": b})
			}
			if i%3 == 0 {
				out = append(out, map[string]interface{}{"a": a, "b": 5.0, "c": []interface{}{a, 1.0}})
				out = append(out, []interface{}{a, []interface{}{5.0}}, []interface{}{a, []interface{}{6.0}})
			}
		}
		return NewTextSet(out)
	})
}

// NumDocs: documents around numbers whose text, bits or magnitude are unusual: negative zero,
// 1e21 (exponent form), 0.1+0.2, 2^53 and 2^53+1 (same float64), tiny and large magnitudes.
func NumDocs() *TextSet {
	return memoize("NumDocs", func() *TextSet {
		negZero := math.Copysign(0, -1)
		nums := []V{0.0, negZero, 1e21, 0.30000000000000004, 0.3, 9007199254740992.0, 9007199254740993.0, 1e-7, -1.5, 1.0, 100.0,
			9007199254740994.0, 1e19, 2e19, 9223372036854775807.0, 18446744073709551616.0, 1700000000000.0, 1700000000001.0, 1e-10, 2e-10, 1e-12,
			// a number and its negation; the subnormal range and its border (neighbouring values differ by 5e-324)
			-1.0, -5.0, 5.0, -1e-7, 5e-324, 1e-323, 1.5e-323, -5e-324, 2.2250738585072014e-308, 2.225073858507201e-308, 1.7976931348623157e308,
			// fractions that differ only beyond the 15th significant digit
			0.1, 0.10000000000000002, 1234.5678901234567, 1234.5678901234569}
		var out []V
		for _, x := range nums {
			out = append(out, x, []interface{}{x}, map[string]interface{}{"a": x}, []interface{}{1.0, x, 1.0}, map[string]interface{}{"a": []interface{}{x, x}},
				map[string]interface{}{"a": map[string]interface{}{"n": x}}, []interface{}{map[string]interface{}{"n": x}})
		}
		for _, x := range nums[:6] {
			for _, y := range nums[:6] {
				out = append(out, []interface{}{x, y})
			}
		}
		return NewTextSet(out)
	})
}

// StrDocs: documents whose string values need escaping in JSON, YAML or the diff text.
func StrDocs() *TextSet {
	return memoize("StrDocs", func() *TextSet {
		strs := []V{"", "a\nb", "\"q\"", "\u00e9", "\U0001F600", " lead", "trail ", "- x", "+ y", "@ z", "^ w", "[", "]", "true", "1", "null", "a\\b", "\t", "<&>",
			"50%", "100%d done %s", "%!f(MISSING)", "\\u003c", "a \\u003cb\\u003e \\u0026", "http://example.com/a/b", strings.Repeat("z", 70000),
			// the same text with different line ends / white space / composition; controls that Go and JSON quote differently
			"a\r\nb", "a\rb", "a\tb", "a  b", "\u00e9x", "e\u0301x", "\a", "\v", "\x7f", "\ufffd", "x\ufffdy", "\U000e0001",
			// text that looks like a comment, a number or a line of the diff format
			"see // below", "x /* y */ z", "a /*", "*/ b", "-5", "- -5", "# c"}
		var out []V
		for i, x := range strs {
			out = append(out, x, []interface{}{x}, map[string]interface{}{"k": x})
			y := strs[(i+1)%len(strs)]
			out = append(out, []interface{}{x, y}, map[string]interface{}{"k": []interface{}{x, y, x}}, map[string]interface{}{"k": x, "j": y})
		}
		return NewTextSet(out)
	})
}

// KeyedStr: keyed arrays whose identifying values are strings, booleans and null rather than
// numbers (for SetKeys(id)).
func KeyedStr() *TextSet {
	return memoize("KeyedStr", func() *TextSet {
		// ids that print alike (1 / "1", true / "true") and structured ids
		ids := []V{"a", "b", "", true, 1.0, "1", "true", map[string]interface{}{"k": 1.0}, map[string]interface{}{"k": 2.0}, []interface{}{1.0}}
		vals := []V{1.0, 2.0, []interface{}{1.0, 2.0}}
		var members [][]V
		for _, id := range ids {
			var ms []V
			for _, v := range vals {
				ms = append(ms, map[string]interface{}{"id": id, "t": "x", "v": ref.Clone(v)})
			}
			members = append(members, ms)
		}
		var out []V
		out = append(out, []interface{}{})
		for i := range ids {
			for _, m := range members[i] {
				out = append(out, []interface{}{m})
				for j := range ids {
					if j == i {
						continue
					}
					out = append(out, []interface{}{m, members[j][0]}, []interface{}{members[j][1], m})
				}
			}
		}
		return NewTextSet(out)
	})
}

// Large returns a few documents beyond every small-scope bound (arrays of 9..130 elements,
// objects of 9..40 keys - Go maps change their iteration behaviour above 8 entries -, nesting
// depth 12 and 25, strings of 1000 characters, 20 keyed members) and simple variants of each,
// so that a size threshold or "fast path for big inputs" cannot hide behind the small universes.
// Keyed2Same: two set keys whose values come from the same domain, so that key values can be swapped between the
// key fields ({"id":1,"t":2} vs {"id":2,"t":1}); every member carries both keys, identities are unique in an array.
func Keyed2Same() *TextSet {
	return memoize("Keyed2Same", func() *TextSet {
		var members []V
		for _, i := range []float64{1, 2} {
			for _, j := range []float64{1, 2} {
				for _, v := range []float64{1, 2} {
					members = append(members, map[string]interface{}{"id": i, "t": j, "v": v})
				}
			}
		}
		out := []V{[]interface{}{}}
		for x, m := range members {
			out = append(out, []interface{}{m})
			for y, n := range members {
				if x/2 != y/2 { // different (id,t)
					out = append(out, []interface{}{m, n})
				}
			}
		}
		return NewTextSet(out)
	})
}

// KeyedLoose: arrays of at most two members over objects whose set key "id" is duplicated between members,
// null, missing, or a string that prints like a number - outside the "identified by keys" precondition of the
// patch properties, but inside "for every a, b" of Equals (C04) and of the Diff-empty biconditional (C05).
func KeyedLoose() *TextSet {
	return memoize("KeyedLoose", func() *TextSet {
		members := []V{
			map[string]interface{}{"id": 1.0, "v": 1.0}, map[string]interface{}{"id": 1.0, "v": 2.0}, map[string]interface{}{"id": 2.0, "v": 1.0},
			map[string]interface{}{"id": nil, "v": 1.0}, map[string]interface{}{"v": 1.0}, map[string]interface{}{"v": 2.0},
			map[string]interface{}{"id": "1", "v": 1.0}, map[string]interface{}{"id": 1.0},
		}
		return NewTextSet(gen.Arrays(2, members))
	})
}

// NearNumberArrays: arrays of up to three numbers (at the root and under a key) over {1, 1.01, 2, 3, 5, 6}: 1 and 1.01 are
// within a precision of 0.1 of each other, the rest are not.
func NearNumberArrays() *TextSet {
	return memoize("near-numbers", func() *TextSet {
		var out []V
		for _, a := range gen.Arrays(3, []V{1.0, 1.01, 2.0, 3.0, 5.0, 6.0}) {
			out = append(out, a)
		}
		for _, a := range gen.Arrays(2, []V{1.0, 1.01, 2.0, 3.0}) {
			out = append(out, map[string]interface{}{"k": a}, []interface{}{a, 1.0})
		}
		// a container that changes only within the precision, between two neighbours that may change for real
		for _, in := range []V{[]interface{}{1.0}, []interface{}{1.01}, []interface{}{2.0}, map[string]interface{}{"k": 1.0}, map[string]interface{}{"k": 1.01}} {
			for _, x := range []V{nil, 1.0, 5.0} {
				for _, y := range []V{nil, 1.0, 5.0} {
					a := []interface{}{}
					if x != nil {
						a = append(a, x)
					}
					a = append(a, in)
					if y != nil {
						a = append(a, y)
					}
					out = append(out, a)
				}
			}
		}
		return NewTextSet(out)
	})
}

// ObjInList: lists holding one object over the keys a, b, c, d (each absent, 1 or 2; 80 non-empty objects and {}), and a
// few lists of two: a kept member next to several changed or added ones inside a list.
func ObjInList() *TextSet {
	return memoize("ObjInList", func() *TextSet {
		var objs []V
		for code := 0; code < 81; code++ {
			o := map[string]interface{}{}
			c := code
			for _, k := range []string{"a", "b", "c", "d"} {
				if v := c % 3; v > 0 {
					o[k] = float64(v)
				}
				c /= 3
			}
			objs = append(objs, o)
		}
		var out []V
		for i, o := range objs {
			out = append(out, []interface{}{o})
			if i%9 == 4 {
				out = append(out, []interface{}{o, objs[(i*7+3)%81]}, map[string]interface{}{"k": []interface{}{0.0, o}})
			}
		}
		return NewTextSet(out)
	})
}

// Huge: lists whose LCS table exceeds 2^20 cells and bags with more than 1024 distinct members.
func Huge() *TextSet {
	return memoize("Huge", func() *TextSet {
		seq := func(from, to int) []interface{} {
			a := make([]interface{}, 0, to-from)
			for i := from; i < to; i++ {
				a = append(a, float64(i))
			}
			return a
		}
		a := seq(0, 1100)
		cut := append(append([]interface{}{}, a[:550]...), a[551:]...)
		chg := append([]interface{}{}, a...)
		chg[3] = "x"
		return NewTextSet([]V{a, cut, chg, seq(0, 600), seq(600, 1200)})
	})
}

func Large() *TextSet {
	return memoize("Large", func() *TextSet {
		var out []V
		seq := func(n int) []interface{} {
			a := make([]interface{}, n)
			for i := range a {
				a[i] = float64(i)
			}
			return a
		}
		for _, n := range []int{9, 17, 33, 65, 130} {
			a := seq(n)
			out = append(out, a)
			b := append([]interface{}{}, a...)
			b[n/2] = "changed"
			out = append(out, b)
			out = append(out, append(append([]interface{}{}, a[:n/3]...), a[n/3+1:]...))
			out = append(out, append([]interface{}{"front"}, a...), append(append([]interface{}{}, a...), "back"))
			d := make([]interface{}, n)
			for i := range d {
				d[i] = float64(i % 3)
			}
			out = append(out, d)
			if n <= 17 {
				r := make([]interface{}, n)
				for i := range r {
					r[i] = a[n-1-i]
				}
				out = append(out, r)
			}
		}
		for _, n := range []int{9, 17, 40} {
			o := map[string]interface{}{}
			for i := 0; i < n; i++ {
				o[fmt.Sprintf("k%02d", i)] = float64(i)
			}
			out = append(out, o)
			for _, mut := range []string{"change", "remove", "add", "nest"} {
				c := map[string]interface{}{}
				for k, v := range o {
					c[k] = v
				}
				switch mut {
				case "change":
					c["k03"] = "changed"
					c[fmt.Sprintf("k%02d", n-1)] = []interface{}{1.0, 2.0}
				case "remove":
					delete(c, "k00")
					delete(c, "k05")
				case "add":
					c["zz"] = 1.0
					c["aa"] = map[string]interface{}{"x": 1.0}
				case "nest":
					c["k01"] = seq(9)
				}
				out = append(out, c)
			}
		}
		for _, depth := range []int{12, 25} {
			for _, leaf := range []V{1.0, 2.0, []interface{}{1.0, 2.0}} {
				var v V = leaf
				for i := 0; i < depth; i++ {
					if i%2 == 0 {
						v = map[string]interface{}{"d": v}
					} else {
						v = []interface{}{v}
					}
				}
				out = append(out, v)
			}
		}
		long := strings.Repeat("x", 1000)
		out = append(out, long, long[:999]+"y", []interface{}{long, "s"}, map[string]interface{}{"s": long[:500]})
		// a value whose rendering is one line of more than 64 KiB (line-buffer limits)
		huge := strings.Repeat("y", 70000)
		out = append(out, map[string]interface{}{"k": "short", "b": 2.0}, map[string]interface{}{"k": huge, "b": 2.0}, []interface{}{1.0, huge, 3.0})
		// edits at indices where the decimal width changes (9 -> 10, 99 -> 100) or contains a zero
		for _, n := range []int{12, 21, 102} {
			a := seq(n)
			out = append(out, a)
			for _, at := range []int{9, 10, n - 2} {
				b := append([]interface{}{}, a...)
				b[at] = "x"
				out = append(out, b)
				out = append(out, append(append([]interface{}{}, a[:at]...), a[at+1:]...))
				c := append(append([]interface{}{}, a[:at]...), "ins")
				out = append(out, append(c, a[at:]...))
			}
		}
		// runs of equal elements (head / tail overlap), long arrays with duplicates edited in place
		for _, n := range []int{16, 17, 20, 66} {
			z := make([]interface{}, n)
			for i := range z {
				z[i] = 0.0
			}
			out = append(out, z)
		}
		for _, n := range []int{20, 70} {
			a := seq(n)
			run := append(append(append([]interface{}{}, a[:5]...), 7.0, 7.0, 7.0), a[5:]...)
			out = append(out, run, append(append(append([]interface{}{}, a[:5]...), 7.0, 7.0, 7.0, 7.0), a[5:]...))
			d := make([]interface{}, n)
			for i := range d {
				d[i] = float64(i % 3)
			}
			e := append([]interface{}{}, d...)
			e[n/2] = "w"
			out = append(out, e, append(append([]interface{}{}, d[1:]...), d[0]))
			dup := append(append([]interface{}{7.0}, a...), 7.0)
			out = append(out, dup, append(append([]interface{}{}, a...), 7.0))
		}
		out = append(out, seq(2), seq(0))
		// array members whose only keys are long and differ in their last character
		for _, n := range []int{70, 300} {
			k := strings.Repeat("organisation.unit.", n/18+1)[:n]
			out = append(out, []interface{}{map[string]interface{}{k + "1": true}}, []interface{}{map[string]interface{}{k + "2": true}},
				[]interface{}{map[string]interface{}{k + "1": true}, map[string]interface{}{k + "2": true}}, map[string]interface{}{k + "1": 1.0, k + "2": 2.0}, map[string]interface{}{k + "1": 1.0, k + "2": 3.0})
		}
		// keys of 1 500 and 5 000 characters
		for _, n := range []int{1500, 5000} {
			k := strings.Repeat("k", n)
			out = append(out, map[string]interface{}{k: 1.0, "b": 2.0}, map[string]interface{}{k: 2.0, "b": 2.0}, map[string]interface{}{k + "x": 1.0})
		}
		// same length beyond 64 elements: an insertion in front of duplicate runs, one duplicate dropped
		for _, p := range [][2][]interface{}{{{"z", "z", "v", "v"}, {"w", "z", "z", "v"}}, {{7.0, 7.0, 8.0, 8.0}, {9.0, 7.0, 7.0, 8.0}}} {
			out = append(out, append(append([]interface{}{}, p[0]...), seq(70)...), append(append([]interface{}{}, p[1]...), seq(70)...))
		}
		// same length, every element shifted by one position (rotation), beyond 64 elements
		rot := append(append([]interface{}{}, seq(70)[1:]...), 0.0)
		out = append(out, rot)
		// many keys, deep chains of objects and of arrays, beyond powers of two up to 128
		for _, n := range []int{70, 130} {
			o := map[string]interface{}{}
			o2 := map[string]interface{}{}
			for i := 0; i < n; i++ {
				o[fmt.Sprintf("k%03d", i)] = float64(i)
				o2[fmt.Sprintf("k%03d", i)] = float64(i)
			}
			o2["k001"] = "changed"
			delete(o2, "k002")
			out = append(out, o, o2)
		}
		for _, depth := range []int{40, 110} {
			for _, leaf := range []V{map[string]interface{}{"x": 1.0, "z": 2.0}, map[string]interface{}{"x": 2.0, "z": 2.0}, map[string]interface{}{"z": 2.0, "y": 1.0}} {
				var v V = ref.Clone(leaf)
				for i := 0; i < depth; i++ {
					v = map[string]interface{}{"k": v}
				}
				out = append(out, map[string]interface{}{"x": 1.0, "k": v}, map[string]interface{}{"x": 2.0, "k": v})
			}
			for _, leaf := range []V{[]interface{}{1.0, 2.0, 3.0}, []interface{}{1.0, 4.0, 3.0}} {
				var v V = ref.Clone(leaf)
				for i := 0; i < depth; i++ {
					v = []interface{}{v}
				}
				out = append(out, v)
			}
		}
		members := func(change int) []interface{} {
			m := make([]interface{}, 20)
			for i := range m {
				v := float64(i)
				if i == change {
					v = -1
				}
				m[i] = map[string]interface{}{"id": float64(i), "t": "x", "v": v}
			}
			return m
		}
		out = append(out, members(-1), members(7), members(19), members(-1)[:19], append([]interface{}{members(-1)[19]}, members(-1)[:19]...))
		return NewTextSet(out)
	})
}

// Live legs ("start from non-initial states"): a case kind "<id>live|<mode>|<construct>|<options>"
// asks for operand a (mode A), b (mode B) or both (mode AB) to be the value a caller holds after
// Patch (impl.Live, built by <construct>) instead of a freshly parsed one. The live value stands
// in only where it denotes exactly the document of the case; n counts the operands replaced.
var liveModes = []string{"A", "B", "AB"}

func liveKind(id, mode, construct, opt string) string {
	return id + "live|" + mode + "|" + construct + "|" + opt
}

func liveOperands(kind, a, b string) (na, nb jd.JsonNode, opt, construct string, n int, ok bool) {
	parts := strings.Split(kind, "|")
	if len(parts) != 4 || !strings.HasSuffix(parts[0], "live") {
		return nil, nil, "", "", 0, false
	}
	mode, construct, opt := parts[1], parts[2], parts[3]
	na, nb = impl.Read(a), impl.Read(b)
	sub := func(text string, cur jd.JsonNode) jd.JsonNode {
		if l, ok := impl.Live(text, construct); ok {
			if lv, err := impl.ToV(l); err == nil && ref.Equal(lv, ref.MustParse(text), ref.List) {
				n++
				return l
			}
		}
		return cur
	}
	if strings.Contains(mode, "A") {
		na = sub(a, na)
	}
	if strings.Contains(mode, "B") {
		nb = sub(b, nb)
	}
	return na, nb, opt, construct, n, true
}

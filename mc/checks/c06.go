package checks

import (
	"fmt"
	jd "github.com/josephburnett/jd/v2"
	"strings"
	"time"

	"verif/mc/engine"
	"verif/mc/gen"
	"verif/mc/impl"
	"verif/mc/ref"
)

func c06Spaces(tier string) []pairLeg {
	var legs []pairLeg
	add := func(name string, t *TextSet) { legs = append(legs, pairLeg{name, t, t}) }
	if tier == "thorough" {
		add("A7x123", Arr(7, "123"))
		add("A5x6", Arr(5, "6"))
		add("A10x12", Arr(10, "12"))
		for _, p := range gen.Placements[1:] {
			add("A5x123@"+p.Name, Placed(Arr(5, "123"), p))
			add("A3x6@"+p.Name, Placed(Arr(3, "6"), p))
		}
		add("A4cont", Arr(4, "cont"))
		add("U5", noVoid(U(5)))
		add("deep", Deep(true))
		add("mixed", Mixed())
		add("large", Large())
		add("huge", Huge())
		add("obj-in-list", ObjInList())
		add("E3", EditStates(3, 4000))
	} else {
		add("A6x123", Arr(6, "123"))
		add("A4x6", Arr(4, "6"))
		add("A8x12", Arr(8, "12"))
		for _, p := range gen.Placements[1:] {
			add("A4x123@"+p.Name, Placed(Arr(4, "123"), p))
			add("A2x6@"+p.Name, Placed(Arr(2, "6"), p))
		}
		add("A3cont", Arr(3, "cont"))
		add("U4", noVoid(U(4)))
		add("deep", Deep(true))
		add("mixed", Mixed())
		add("large", Large())
		add("huge", Huge())
		add("obj-in-list", ObjInList())
		add("E2", EditStates(2, 800))
	}
	return legs
}

func init() {
	engine.Register(&engine.Check{
		ID: "C06",
		Rule: "all ordered pairs of arrays over small alphabets with repeats (root and three nested placements), of container-element arrays, and of the general " +
			"document universes; per array level: removes/adds of the hunks addressed to that array versus len - LCS (independent DP), recursion into same-position same-kind containers, " +
			"exactly one before and one after context entry per index hunk, context verified by replaying the hunks through the reference interpreter; non-trivial = diff non-empty",
		Bounds: func(tier string) map[string]interface{} {
			m := map[string]interface{}{}
			for _, l := range c06Spaces(tier) {
				m[l.Name] = map[string]int{"documents": l.A.Len(), "ordered_pairs": l.A.Len() * l.A.Len()}
			}
			return m
		},
		Enum: func(tier string, e *engine.Emitter) {
			// start from non-initial states: a and b are live results of Patch (built under each reading)
			lv := c05LiveDocs()
			for _, con := range []string{"none", "SET", "MULTISET", "replace:none", "replace:SET"} {
				pairs(e, "c06live:"+con, "live/"+con, lv, lv)
			}
			// ... and only one of the two is live (the other freshly parsed), also where the live value was built
			// by hunks whose paths lead through array positions into the containers below
			lv6 := c04LiveDocs()
			for _, mode := range liveModes {
				for _, con := range []string{"none", "replace:none", "leaf:none", "leaf:SETKEYS:id"} {
					pairs(e, liveKind("c06", mode, con, "none"), "live-"+mode+"/"+con, lv6, lv6)
				}
			}
			// an option that changes nothing for these documents (integers, precision 0.001) must not change the diff
			pairs(e, "c06prec", "A5x123/PRECISION:0.001", Arr(5, "123"), Arr(5, "123"))
			pairs(e, "c06prec", "A2cont/PRECISION:0.001", Arr(2, "cont"), Arr(2, "cont"))
			// numbers within the precision at the same place, next to real edits: the context lines of the hunks are
			// still the neighbouring elements of a, and the hunks still turn a into b (up to the precision)
			near := NearNumberArrays()
			pairs(e, "c06eps", "near/PRECISION:0.1", near, near)
			for _, l := range c06Spaces(tier) {
				pairs(e, "c06", l.Name, l.A, l.B)
			}
		},
		Run: runC06,
		Required: func(string) []string {
			return []string{"multi-hunk", "single-hunk", "recursed-into-containers", "scalar-array-level"}
		},
		Assume: []string{"optimal edit script size = len - LCS on canonical element strings", "the 'larger ones randomly' clause of the quantifier is replaced by complete enumeration over a binary alphabet up to length 8/10"},
		Budget: budget(7*time.Minute, 40*time.Minute),
	})
}

func isScalar(v V) bool {
	switch v.(type) {
	case []interface{}, map[string]interface{}:
		return false
	}
	return true
}

func sameKindContainer(x, y V) bool {
	switch x.(type) {
	case []interface{}:
		_, ok := y.([]interface{})
		return ok
	case map[string]interface{}:
		_, ok := y.(map[string]interface{})
		return ok
	}
	return false
}

func peEq(a, b []ref.PE) bool {
	if len(a) != len(b) {
		return false
	}
	for i := range a {
		if a[i].Kind != b[i].Kind || a[i].Key != b[i].Key || a[i].Index != b[i].Index {
			return false
		}
	}
	return true
}

type c06stats struct {
	scalarLevels, recursed, levels, gapRecursions int
}

// uniqueAlignment returns the matched index pairs of the longest common subsequence of xs and
// ys if there is exactly one way to choose them, else ok=false.
func uniqueAlignment(xs, ys []string, l int) (pairs [][2]int, ok bool) {
	if len(xs) > 9 || len(ys) > 9 {
		return nil, false
	}
	// suffix LCS table
	n, m := len(xs), len(ys)
	t := make([][]int, n+1)
	for i := range t {
		t[i] = make([]int, m+1)
	}
	for i := n - 1; i >= 0; i-- {
		for j := m - 1; j >= 0; j-- {
			if xs[i] == ys[j] {
				t[i][j] = t[i+1][j+1] + 1
			} else if t[i+1][j] >= t[i][j+1] {
				t[i][j] = t[i+1][j]
			} else {
				t[i][j] = t[i][j+1]
			}
		}
	}
	count := 0
	var found [][2]int
	var cur [][2]int
	var rec func(i, j, need int)
	rec = func(i, j, need int) {
		if count > 1 {
			return
		}
		if need == 0 {
			count++
			if count == 1 {
				found = append([][2]int{}, cur...)
			}
			return
		}
		for a := i; a < n; a++ {
			for b := j; b < m; b++ {
				if xs[a] == ys[b] && t[a+1][b+1] == need-1 && t[a][b] >= need {
					cur = append(cur, [2]int{a, b})
					rec(a+1, b+1, need-1)
					cur = cur[:len(cur)-1]
				}
			}
		}
	}
	rec(0, 0, l)
	return found, count == 1
}

// checkLevels walks a and b in parallel and checks minimality at every array level that is
// reachable by a path valid in both documents.
func checkLevels(a, b V, prefix []ref.PE, hunks []ref.Hunk, st *c06stats) string {
	// Two containers of the same kind at a place reached through object keys only (or at the
	// root) are recursed into: no hunk may replace the one by the other wholesale. (Places
	// reached through an array index are judged by the level logic below, where the LCS may
	// legitimately move elements.)
	if sameKindContainer(a, b) && (len(prefix) == 0 || prefix[len(prefix)-1].Kind == "key") {
		for _, h := range hunks {
			if peEq(h.Path, prefix) && len(h.Remove) == 1 && len(h.Add) == 1 && sameKindContainer(h.Remove[0], h.Add[0]) {
				return fmt.Sprintf("a hunk at %s replaces a whole container by a container of the same kind instead of recursing into it", ref.PathJSON(prefix))
			}
		}
	}
	switch x := a.(type) {
	case map[string]interface{}:
		y, ok := b.(map[string]interface{})
		if !ok {
			return ""
		}
		for _, k := range ref.SortedKeys(x) {
			if yv, ok := y[k]; ok {
				if msg := checkLevels(x[k], yv, append(append([]ref.PE{}, prefix...), ref.K(k)), hunks, st); msg != "" {
					return msg
				}
			}
		}
	case []interface{}:
		y, ok := b.([]interface{})
		if !ok {
			return ""
		}
		st.levels++
		rem, add := 0, 0
		here := 0
		for _, h := range hunks {
			if len(h.Path) == len(prefix)+1 && h.Path[len(prefix)].Kind == "index" && peEq(h.Path[:len(prefix)], prefix) {
				rem += len(h.Remove)
				add += len(h.Add)
				here++
			}
		}
		xs, ys := make([]string, len(x)), make([]string, len(y))
		allScalar := true
		for i, e := range x {
			xs[i] = ref.Canon(e, ref.List)
			allScalar = allScalar && isScalar(e)
		}
		for i, e := range y {
			ys[i] = ref.Canon(e, ref.List)
			allScalar = allScalar && isScalar(e)
		}
		l := ref.LCSLen(xs, ys)
		// Where the optimal alignment is unique, the elements between two matched anchors are
		// paired in order; a pair of same-kind containers must be recursed into, not replaced,
		// so neither of its members may be counted among the removed / added elements.
		recursable := 0
		if al, ok := uniqueAlignment(xs, ys, l); ok {
			pi, pj := 0, 0
			al = append(al, [2]int{len(x), len(y)})
			for _, m := range al {
				for k := 0; pi+k < m[0] && pj+k < m[1]; k++ {
					if sameKindContainer(x[pi+k], y[pj+k]) {
						recursable++
					}
				}
				pi, pj = m[0]+1, m[1]+1
			}
			if recursable > 0 {
				st.gapRecursions++
			}
		}
		if rem > len(x)-l-recursable || add > len(y)-l-recursable {
			if recursable > 0 && rem <= len(x)-l && add <= len(y)-l {
				return fmt.Sprintf("array at %s: %d same-position same-kind container pair(s) between the common elements must be recursed into, but the hunks at this level remove %d and add %d elements (at most %d and %d if they recursed)",
					ref.PathJSON(prefix), recursable, rem, add, len(x)-l-recursable, len(y)-l-recursable)
			}
			return fmt.Sprintf("array at %s: hunks remove %d and add %d elements, an optimal LCS script removes %d and adds %d", ref.PathJSON(prefix), rem, add, len(x)-l, len(y)-l)
		}
		if allScalar {
			st.scalarLevels++
			if rem != len(x)-l || add != len(y)-l {
				return fmt.Sprintf("array of scalars at %s: hunks remove %d and add %d elements, expected exactly %d and %d", ref.PathJSON(prefix), rem, add, len(x)-l, len(y)-l)
			}
		}
		if len(x) == len(y) {
			onlyContainers := true
			var diffPos []int
			for i := range x {
				if xs[i] == ys[i] {
					continue
				}
				if !sameKindContainer(x[i], y[i]) {
					onlyContainers = false
					break
				}
				diffPos = append(diffPos, i)
			}
			// Recursion is demanded only where the LCS cannot do better by matching elements across
			// positions (then jd's LCS walk legitimately moves elements instead).
			if onlyContainers && len(diffPos) > 0 {
				// ... and only where the differing elements occur nowhere on the other side, so
				// that every optimal alignment pairs exactly the equal positions.
				for _, i := range diffPos {
					for j := range x {
						if xs[i] == ys[j] || ys[i] == xs[j] {
							onlyContainers = false
						}
					}
				}
			}
			if onlyContainers && len(diffPos) > 0 && l == len(x)-len(diffPos) {
				if here > 0 {
					return fmt.Sprintf("array at %s differs only inside same-position containers of the same kind, but %d hunk(s) replace elements at this level instead of recursing", ref.PathJSON(prefix), here)
				}
				st.recursed++
				for _, i := range diffPos {
					if msg := checkLevels(x[i], y[i], append(append([]ref.PE{}, prefix...), ref.I(i)), hunks, st); msg != "" {
						return msg
					}
				}
			}
		}
	}
	return ""
}

func runC06(c *engine.Case) engine.Result {
	res := engine.Result{}
	var fail, text string
	var st c06stats
	nh := 0
	p := impl.Guard(func() {
		na, nb := impl.Read(c.A), impl.Read(c.B)
		if strings.HasPrefix(c.Kind, "c06live:") {
			con := strings.TrimPrefix(c.Kind, "c06live:")
			if l, ok := impl.Live(c.A, con); ok && l.Json() == na.Json() {
				na = l
			}
			if l, ok := impl.Live(c.B, con); ok && l.Json() == nb.Json() {
				nb = l
			}
		}
		if la, lb, _, _, _, ok := liveOperands(c.Kind, c.A, c.B); ok {
			na, nb = la, lb
		}
		d := na.Diff(nb)
		if c.Kind == "c06prec" {
			d = na.Diff(nb, jd.Precision(0.001))
		}
		if c.Kind == "c06eps" {
			d = na.Diff(nb, jd.Precision(0.1))
		}
		res.Transitions++
		text = d.Render()
		hs, err := impl.Hunks(d)
		if err != nil {
			fail = "diff not observable: " + err.Error()
			return
		}
		nh = len(hs)
		aV, bV := ref.MustParse(c.A), ref.MustParse(c.B)
		for i, h := range hs {
			if n := len(h.Path); n > 0 && h.Path[n-1].Kind == "index" {
				if len(h.Before) != 1 || len(h.After) != 1 {
					fail = fmt.Sprintf("hunk %d edits an array position but carries %d before and %d after context entries (expected exactly one each)", i, len(h.Before), len(h.After))
					return
				}
			} else if len(h.Before) != 0 || len(h.After) != 0 {
				fail = fmt.Sprintf("hunk %d does not address an array position but carries context", i)
				return
			}
		}
		res.Traces++
		got, _, rej := ref.ApplyHunks(aV, hs)
		if rej != nil {
			if rej.NoVerdict {
				fail = "diff contains a hunk outside the documented format: " + rej.Error()
			} else {
				fail = "context/remove expectations of the diff do not hold on a when replayed by the reference interpreter: " + rej.Error()
			}
			return
		}
		if c.Kind == "c06eps" {
			// (minimality is defined on exact equality; here only context and effect are judged)
			if !ref.EqualEps(got.ToV(), bV, 0.1) {
				fail = "replaying the hunks on a gives " + ref.JSON(got.ToV()) + ", which is not b within the precision"
			}
			return
		}
		if !ref.CompareMixed(got, bV) {
			fail = "replaying the hunks on a gives " + ref.JSON(got.ToV()) + ", not b"
			return
		}
		fail = checkLevels(aV, bV, nil, hs, &st)
	})
	if p != "" {
		fail = p
	}
	res.Bucket = hunkShape(nh)
	if st.recursed > 0 {
		res.Bucket += "/recursed-into-containers"
	}
	if st.scalarLevels > 0 {
		res.Bucket += "/scalar-array-level"
	}
	if st.gapRecursions > 0 {
		res.Bucket += "/gap-recursion"
	}
	res.Nontrivial = nh > 0
	if fail != "" {
		res.Violation = fail + " | diff:\n" + text
	}
	return res
}

//go:build verifmaporder

package checks

// Map-order leg of C15. This file is only part of the jdmc-ord build, which compiles the
// library through a `go build -overlay` in which every `range` over a map asks the hook
// jd.VerifMapChoice for the order (see /verif/mc/cmd/maporder). The explorer owns that
// choice: the default answer is sorted order; executions deviate at one (thorough: two)
// range-site executions to every permutation (n <= 3) or every rotation and the reversal
// (n >= 4). All observable outputs must equal those of the default execution.

import (
	"fmt"
	"strconv"
	"strings"
	"time"

	jd "github.com/josephburnett/jd/v2"

	"verif/mc/engine"
	"verif/mc/impl"
)

type choicePoint struct {
	Site string
	N    int
}

func permsFor(n int) [][]int {
	id := make([]int, n)
	for i := range id {
		id[i] = i
	}
	var out [][]int
	if n <= 3 {
		var rec func(cur []int, used []bool)
		rec = func(cur []int, used []bool) {
			if len(cur) == n {
				out = append(out, append([]int{}, cur...))
				return
			}
			for i := 0; i < n; i++ {
				if !used[i] {
					used[i] = true
					rec(append(cur, i), used)
					used[i] = false
				}
			}
		}
		rec(nil, make([]bool, n))
		return out[1:] // without the identity
	}
	for r := 1; r < n; r++ {
		p := make([]int, n)
		for i := range p {
			p[i] = (i + r) % n
		}
		out = append(out, p)
	}
	rev := make([]int, n)
	for i := range rev {
		rev[i] = n - 1 - i
	}
	return append(out, rev)
}

// ordRun executes all observable operations of one world under a choice vector
// (choice point index -> permutation number) and returns outputs and the points met.
func ordRun(kind, A, B string, choices map[int]int) (outs []string, points []choicePoint, err error) {
	idx := 0
	jd.VerifMapChoice = func(site string, n int) []int {
		i := idx
		idx++
		points = append(points, choicePoint{site, n})
		if p, ok := choices[i]; ok {
			ps := permsFor(n)
			if p < len(ps) {
				return ps[p]
			}
		}
		return nil
	}
	defer func() { jd.VerifMapChoice = nil }()
	for i := 0; i < len(c15Ops); i++ {
		w, e := c15Build(kind, A, B)
		if e != nil {
			return nil, nil, e
		}
		outs = append(outs, w.op(c15Ops[i]))
	}
	w, e := c15Build(kind, A, B)
	if e != nil {
		return nil, nil, e
	}
	outs = append(outs, w.patch())
	return outs, points, nil
}

func init() {
	engine.Register(&engine.Check{
		ID:       "C15ORD",
		Property: "C15",
		Enum:     enumC15Ord,
		Run:      runC15Ord,
		Budget:   budget(8*time.Minute, 45*time.Minute),
	})
}

func enumC15Ord(tier string, e *engine.Emitter) {
	bound := 1
	if tier == "thorough" {
		bound = 2
	}
	emitAll := func(kind, leg, A, B string) {
		var points []choicePoint
		impl.Guard(func() { _, points, _ = ordRun(kind, A, B, nil) })
		e.Do(engine.Case{Kind: "c15ord:" + kind, Leg: leg, A: A, B: B, X: ""})
		for i, p := range points {
			if p.N < 2 {
				continue
			}
			for a := range permsFor(p.N) {
				x := fmt.Sprintf("%d=%d", i, a)
				e.Do(engine.Case{Kind: "c15ord:" + kind, Leg: leg, A: A, B: B, X: x})
				if bound >= 2 {
					for j := i + 1; j < len(points); j++ {
						if points[j].N < 2 {
							continue
						}
						for a2 := range permsFor(points[j].N) {
							if (i+j+a+a2)%4 != 0 && len(points) > 12 {
								continue // long executions: every 4th pair
							}
							e.Do(engine.Case{Kind: "c15ord:" + kind, Leg: leg + "/2-deviations", A: A, B: B, X: fmt.Sprintf("%s,%d=%d", x, j, a2)})
						}
					}
				}
			}
		}
	}
	mk := c15MultiKey()
	for _, o := range []string{"none", "SET", "MULTISET", "MERGE", "SET+MERGE"} {
		hk := engine.HS("c15ord:" + o)
		t := mk
		if strings.Contains(o, "MERGE") {
			t = nullFree(mk)
		}
		for i, at := range t.Texts {
			for j, bt := range t.Texts {
				if e.Stopped() {
					return
				}
				if e.Mine(engine.HashParts(hk, t.Hash[i], t.Hash[j], 0, 0)) {
					emitAll(o, "order/"+o, at, bt)
				}
			}
		}
	}
	k := thin(Keyed(2, false), 24)
	if bound >= 2 {
		k = thin(Keyed(2, false), 14)
	}
	hk := engine.HS("c15ord:SETKEYS:id")
	for i, at := range k.Texts {
		for j, bt := range k.Texts {
			if e.Mine(engine.HashParts(hk, k.Hash[i], k.Hash[j], 0, 0)) {
				emitAll("SETKEYS:id", "order/SETKEYS:id", at, bt)
			}
		}
	}
	for _, mp := range c15MergePatches {
		for _, t := range c15Targets {
			if e.Mine(engine.HashParts(engine.HS("c15ord:merge-patch"), engine.HS(t), engine.HS(mp), 0, 0)) {
				emitAll("merge-patch", "order/merge-patch", t, mp)
			}
		}
	}
}

func runC15Ord(c *engine.Case) engine.Result {
	kind := optOf(c.Kind)
	res := engine.Result{}
	choices := map[int]int{}
	if c.X != "" {
		for _, kv := range strings.Split(c.X, ",") {
			p := strings.SplitN(kv, "=", 2)
			i, _ := strconv.Atoi(p[0])
			a, _ := strconv.Atoi(p[1])
			choices[i] = a
		}
	}
	var fail string
	p := impl.Guard(func() {
		base, basePoints, err := ordRun(kind, c.A, c.B, nil)
		if err != nil {
			res.Bucket = "order/unreadable"
			return
		}
		res.Transitions += len(base)
		if len(choices) == 0 {
			// the default execution must itself be reproducible (same sites in the same order)
			again, pts, _ := ordRun(kind, c.A, c.B, nil)
			if fmt.Sprint(pts) != fmt.Sprint(basePoints) || fmt.Sprint(again) != fmt.Sprint(base) {
				fail = "the default (sorted-order) execution is not reproducible"
			}
			res.Bucket = "order/default-execution"
			return
		}
		got, pts, _ := ordRun(kind, c.A, c.B, choices)
		res.Transitions += len(got)
		res.Traces++
		res.Nontrivial = true
		res.Bucket = fmt.Sprintf("order/%d-deviation", len(choices))
		for i := range got {
			if i < len(base) && got[i] != base[i] {
				name := "a.Patch(d)"
				if i < len(c15Ops) {
					name = c15OpNames[c15Ops[i]]
				}
				var where []string
				for ci := range choices {
					if ci < len(pts) {
						where = append(where, fmt.Sprintf("%s (map of %d keys, permutation #%d)", pts[ci].Site, pts[ci].N, choices[ci]))
					}
				}
				fail = fmt.Sprintf("output of %s depends on map iteration order: sorted order gives %q, deviating at %s gives %q", name, base[i], strings.Join(where, " and "), got[i])
				return
			}
		}
	})
	if p != "" {
		fail = p
	}
	res.Violation = fail
	return res
}

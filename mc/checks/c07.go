package checks

import (
	"fmt"
	"strings"
	"time"

	"verif/mc/engine"
	"verif/mc/impl"
	"verif/mc/ref"
)

var c07Opts = []string{"none", "SET", "MULTISET", "SETKEYS:id", "SETKEYS:id,t", "MERGE", "SET+MERGE", "MULTISET+MERGE"}

func c07Legs(tier, o string) []pairLeg {
	legs := pairSpace(tier, o)
	if tier != "thorough" {
		var out []pairLeg
		for _, l := range legs {
			if l.A.Len() > 1000 {
				l.A = thin(l.A, 1000)
				l.B = l.A
			}
			out = append(out, l)
		}
		legs = out
	}
	return legs
}

func init() {
	engine.Register(&engine.Check{
		ID: "C07",
		Rule: "all ordered pairs (a,b) x {list, SET, MULTISET, SetKeys(id), SetKeys(id,t), MERGE}; every hunk of a.Diff(b) is replayed through the reference interpreter with provenance " +
			"(removed items originate in a, added items survive into b, nothing is listed on both sides, no hunk at a location where a and b agree) and every leave-one-out sub-diff is applied by the real Patch " +
			"and must fail or miss b; non-trivial = diff with >= 2 hunks (a leave-one-out exists that still has hunks)",
		Bounds: func(tier string) map[string]interface{} {
			m := map[string]interface{}{}
			for _, o := range c07Opts {
				for _, l := range c07Legs(tier, o) {
					m[l.Name+"/"+o] = map[string]int{"documents": l.A.Len(), "ordered_pairs": l.A.Len() * l.A.Len()}
				}
			}
			return m
		},
		Enum: func(tier string, e *engine.Emitter) {
			// a document diffed against itself: nothing is a difference, whatever the members' keys look like
			same := NewTextSet(append(append(append([]V{}, KeyedLoose().Vals...), Keyed2Same().Vals...), thin(KeyedStr(), 150).Vals...))
			for _, o := range []string{"none", "SET", "MULTISET", "SETKEYS:id", "SETKEYS:id,t", "SETKEYS:id+MERGE"} {
				for _, t := range same.Texts {
					e.Emit(engine.Case{Kind: "c07same:" + o, Leg: "identical/" + o, A: t, B: t})
				}
			}
			// start from non-initial states: a, b or both are the live values a caller holds after Patch
			lv7 := c04LiveDocs()
			lk7 := thin(Keyed(2, false), 60)
			for _, mode := range liveModes {
				for _, con := range []string{"none", "SET", "replace:none", "leaf:none", "leaf:SET", "leaf:SETKEYS:id"} {
					for _, o := range []string{"none", "SET", "MULTISET"} {
						pairs(e, liveKind("c07", mode, con, o), "live-"+mode+"/"+con+"->"+o, lv7, lv7)
					}
					// SetKeys(id) only where every array member carries a unique id
					pairs(e, liveKind("c07", mode, con, "SETKEYS:id"), "live-"+mode+"/"+con+"->SETKEYS:id", lk7, lk7)
				}
			}
			// merge mode needs a null-free b (null means delete); a may hold nulls
			withNulls := thin(noVoid(U(4)), 400)
			pairs(e, "c07:MERGE", "a-with-nulls/MERGE", withNulls, nullFree(withNulls))
			for _, o := range c07Opts {
				for _, l := range c07Legs(tier, o) {
					pairs(e, "c07:"+o, l.Name+"/"+o, l.A, l.B)
				}
			}
		},
		Run:      runC07,
		Required: func(string) []string { return []string{"multi-hunk", "single-hunk"} },
		Assume:   []string{"hunk semantics = Appendix A of DESIGN.md", "merge hunks are judged directly against a@path / b@path and by leave-one-out on the real code"},
		Budget:   budget(7*time.Minute, 40*time.Minute),
	})
}

// atKeys follows a key-only path; ok=false if it leaves objects.
func atKeys(v V, path []ref.PE) (V, bool) {
	cur := v
	for _, pe := range path {
		if pe.Kind != "key" {
			return nil, false
		}
		o, ok := cur.(map[string]interface{})
		if !ok {
			return ref.Void{}, true
		}
		nv, ok := o[pe.Key]
		if !ok {
			return ref.Void{}, true
		}
		cur = nv
	}
	return cur, true
}

func seqEq(a, b []V, r ref.Reading) bool {
	if len(a) != len(b) {
		return false
	}
	for i := range a {
		if ref.Canon(a[i], r) != ref.Canon(b[i], r) {
			return false
		}
	}
	return true
}

func runC07Same(c *engine.Case) engine.Result {
	o := impl.Options(optOf(c.Kind))
	res := engine.Result{Traces: 1, Transitions: 1, Nontrivial: true, Bucket: "identical/" + o.Name}
	p := impl.Guard(func() {
		if d := impl.Read(c.A).Diff(impl.Read(c.B), o.Opts...); len(d) != 0 {
			res.Violation = "a document diffed against itself yields hunks (equal sub-documents are mentioned) | diff:\n" + d.Render()
		}
	})
	if p != "" {
		res.Violation = p
	}
	return res
}

func runC07(c *engine.Case) engine.Result {
	if strings.HasPrefix(c.Kind, "c07same:") {
		return runC07Same(c)
	}
	optName := optOf(c.Kind)
	_, _, lopt, _, _, isLive := liveOperands(c.Kind, "null", "null")
	if isLive {
		optName = lopt
	}
	o := impl.Options(optName)
	res := engine.Result{}
	var fail, text string
	nh := 0
	p := impl.Guard(func() {
		aV, bV := ref.MustParse(c.A), ref.MustParse(c.B)
		na, nb := impl.Read(c.A), impl.Read(c.B)
		if isLive {
			na, nb, _, _, _, _ = liveOperands(c.Kind, c.A, c.B)
		}
		d := na.Diff(nb, o.Opts...)
		res.Transitions++
		text = d.Render()
		nh = len(d)
		hs, err := impl.Hunks(d)
		if err != nil {
			fail = "diff not observable: " + err.Error()
			return
		}
		if nh == 0 {
			return
		}
		// per-hunk checks
		for i, h := range hs {
			last := ""
			if n := len(h.Path); n > 0 {
				last = h.Path[n-1].Kind
			}
			if o.Merge != h.Merge {
				fail = fmt.Sprintf("hunk %d: merge flag %v under option set %s", i, h.Merge, o.Name)
				return
			}
			if len(h.Remove) == 0 && len(h.Add) == 0 {
				fail = fmt.Sprintf("hunk %d removes nothing and adds nothing", i)
				return
			}
			if h.Merge {
				if len(h.Add) != 1 || len(h.Remove) != 0 {
					fail = fmt.Sprintf("merge hunk %d must carry exactly one added value and no removed value", i)
					return
				}
				av, ok1 := atKeys(aV, h.Path)
				bv, ok2 := atKeys(bV, h.Path)
				if !ok1 || !ok2 {
					fail = fmt.Sprintf("merge hunk %d has a non-key path", i)
					return
				}
				if ref.Canon(h.Add[0], o.Reading) != ref.Canon(bv, o.Reading) {
					fail = fmt.Sprintf("merge hunk %d adds %s but b holds %s at %s", i, ref.JSON(h.Add[0]), ref.JSON(bv), ref.PathJSON(h.Path))
					return
				}
				if ref.Canon(av, o.Reading) == ref.Canon(bv, o.Reading) {
					fail = fmt.Sprintf("merge hunk %d mentions %s where a and b agree", i, ref.PathJSON(h.Path))
					return
				}
				continue
			}
			switch last {
			case "set", "multiset":
				r := o.Reading
				for _, x := range h.Remove {
					for _, y := range h.Add {
						if ref.Canon(x, r) == ref.Canon(y, r) {
							fail = fmt.Sprintf("hunk %d lists %s on both sides", i, ref.JSON(x))
							return
						}
					}
				}
				if last == "set" {
					for j, x := range h.Remove {
						for k := j + 1; k < len(h.Remove); k++ {
							if ref.Canon(x, r) == ref.Canon(h.Remove[k], r) {
								fail = fmt.Sprintf("set hunk %d removes %s twice", i, ref.JSON(x))
								return
							}
						}
					}
				}
			default:
				if seqEq(h.Remove, h.Add, ref.List) {
					fail = fmt.Sprintf("hunk %d removes exactly what it adds", i)
					return
				}
				if av, ok := atKeys(aV, h.Path); ok {
					bv, _ := atKeys(bV, h.Path)
					if ref.Canon(av, o.Reading) == ref.Canon(bv, o.Reading) {
						fail = fmt.Sprintf("hunk %d mentions %s where a and b agree", i, ref.PathJSON(h.Path))
						return
					}
				}
			}
		}
		if fail != "" {
			return
		}
		if !o.Merge {
			res.Traces++
			got, tr, rej := ref.ApplyHunks(aV, hs)
			if rej != nil {
				if rej.NoVerdict {
					res.Note = "no provenance verdict: " + rej.Reason
				} else {
					fail = "replaying the diff on a through the reference interpreter fails: " + rej.Error()
					return
				}
			} else {
				if !ref.Equal(got.ToV(), bV, o.Reading) {
					fail = "replaying the hunks on a gives " + ref.JSON(got.ToV()) + ", not b"
					return
				}
				for k := range hs {
					for _, org := range tr.RemovedOrigins[k] {
						if org != -1 {
							fail = fmt.Sprintf("hunk %d removes a value that hunk %d added (churn)", k, org)
							return
						}
					}
					nAdd := 0
					for _, x := range hs[k].Add {
						if !ref.IsVoid(x) {
							nAdd++
						}
					}
					if tr.Added[k] != nAdd {
						fail = fmt.Sprintf("hunk %d adds %d values but only %d were not already present", k, len(hs[k].Add), tr.Added[k])
						return
					}
					if n := ref.CountOrigin(got, k); n != tr.Added[k] {
						fail = fmt.Sprintf("hunk %d added %d values but only %d survive into the result", k, tr.Added[k], n)
						return
					}
				}
			}
		}
		// leave-one-out on the real code
		for k := range d {
			sub := append(append(d[:0:0], d[:k]...), d[k+1:]...)
			out := impl.Patch(c.A, sub)
			res.Transitions++
			if out.Panic != "" {
				fail = fmt.Sprintf("leave-one-out %d crashed: %s", k, out.Panic)
				return
			}
			if out.OK && ref.Equal(out.Val, bV, o.Reading) {
				fail = fmt.Sprintf("hunk %d is redundant: without it the remaining hunks still turn a into b", k)
				return
			}
		}
	})
	if p != "" {
		fail = p
	}
	res.Bucket = hunkShape(nh) + "/" + o.Name
	res.Nontrivial = nh >= 2
	if fail != "" {
		res.Violation = fail + " | diff:\n" + text
	}
	return res
}

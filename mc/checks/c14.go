package checks

import (
	"fmt"
	"os"
	"path/filepath"
	"strings"
	"time"

	v1 "github.com/josephburnett/jd/lib"
	jd "github.com/josephburnett/jd/v2"

	"verif/mc/cli"
	"verif/mc/engine"
	"verif/mc/impl"
	"verif/mc/ref"
)

// c14Docs are JSON texts; "raw:" marks file contents used verbatim (not valid JSON).
var c14Docs = []string{
	`{"a":1,"b":[1,2,3]}`, `{"a":2,"b":[1,3,2]}`, `[1,2,2,3]`, `[{"id":1,"v":1},{"id":2,"v":2}]`, `[{"id":2,"v":2},{"id":1,"v":3}]`,
	`[1,[1.0],{"a":2.0},5]`, `[2,[1.05],{"a":2.04},5,[1.0]]`, `[3,[1.04],6,[1.0]]`, `{"a":{"b":{"c":{"x":1,"y":2,"z":[1,2,3]}}}}`, ``, `{}`, `{"a":{"b":{"c":{"x":3,"y":4,"z":[1]}}}}`, `{"pct":"100% done %s %d","v":[1,"50%"]}`, `[3,2,1]`, `{"a":{"b":"x"}}`, `{"a":{"b":"y","c":[true]}}`, `"str"`, `[[1,2],[2,1]]`, `[[2,1]]`,
}

func init() {
	// one line of more than 64 KiB (line-buffer limits), used in the quick tier too
	big := `{"a":1,"big":"` + strings.Repeat("y", 70000) + `"}`
	c14Docs = append(c14Docs[:8:8], append([]string{big}, c14Docs[8:]...)...)
}

var c14Raw = []string{"raw:{\"a\":\"\u27e6FF\u27e7\u27e6FE\u27e7\"}", "raw:\u27e6FF\u27e7\u27e6FE\u27e7{\"a\":1}", "raw:name: \"a\tb\"\n", "raw:name: \"a  b\"\n", "raw:\ufeff{\"a\":1}", "raw:\ufeffa: 1\n", "raw:{invalid", "raw:a: [1, 2]\nb: x\n", "raw:msg: |\n  line one\n  line two\n", "raw:  a: 1\n  b:\n  - x\n", "raw:\n\n[1,2]\n\n"}

type c14Flags struct {
	Arrays    string // "", "-set", "-mset", "-setkeys id"
	Yaml      bool
	Color     bool
	Precision bool
	Format    string // "", "jd", "patch", "merge"
	Out       bool
	Stdin     bool
}

func (f c14Flags) String() string {
	var p []string
	if f.Arrays != "" {
		p = append(p, f.Arrays)
	}
	if f.Yaml {
		p = append(p, "-yaml")
	}
	if f.Color {
		p = append(p, "-color")
	}
	if f.Precision {
		p = append(p, "-precision 0.1")
	}
	if f.Format != "" {
		p = append(p, "-f "+f.Format)
	}
	if f.Out {
		p = append(p, "@o")
	}
	if f.Stdin {
		p = append(p, "@stdin")
	}
	return strings.Join(p, " ")
}

func parseC14Flags(s string) c14Flags {
	var f c14Flags
	t := strings.Fields(s)
	for i := 0; i < len(t); i++ {
		switch t[i] {
		case "-set", "-mset":
			f.Arrays = t[i]
		case "-setkeys":
			f.Arrays = "-setkeys " + t[i+1]
			i++
		case "-yaml":
			f.Yaml = true
		case "-color":
			f.Color = true
		case "-precision":
			f.Precision = true
			i++
		case "-f":
			f.Format = t[i+1]
			i++
		case "@o":
			f.Out = true
		case "@stdin":
			f.Stdin = true
		}
	}
	return f
}

func (f c14Flags) args() []string {
	var a []string
	if f.Arrays != "" {
		a = append(a, strings.Fields(f.Arrays)...)
	}
	if f.Yaml {
		a = append(a, "-yaml")
	}
	if f.Color {
		a = append(a, "-color")
	}
	if f.Precision {
		a = append(a, "-precision", "0.1")
	}
	if f.Format != "" {
		a = append(a, "-f", f.Format)
	}
	return a
}

func (f c14Flags) optName() string {
	var parts []string
	switch {
	case f.Arrays == "-set":
		parts = append(parts, "SET")
	case f.Arrays == "-mset":
		parts = append(parts, "MULTISET")
	case strings.HasPrefix(f.Arrays, "-setkeys"):
		parts = append(parts, "SETKEYS:"+strings.Fields(f.Arrays)[1])
	}
	if f.Format == "merge" {
		parts = append(parts, "MERGE")
	}
	if f.Precision {
		parts = append(parts, "PRECISION:0.1")
	}
	if len(parts) == 0 {
		return "none"
	}
	return strings.Join(parts, "+")
}

func c14FlagSpace(tier string) []c14Flags {
	var out []c14Flags
	arrays := []struct {
		a string
		p bool
	}{{"", false}, {"", true}, {"-set", false}, {"-mset", false}, {"-setkeys id", false}, {"-setkeys id,v", false}}
	for _, ar := range arrays {
		for _, y := range []bool{false, true} {
			for _, c := range []bool{false, true} {
				for _, f := range []string{"", "jd", "patch", "merge"} {
					if f == "jd" && (tier != "thorough") {
						continue // "" and "jd" are the same format; the explicit spelling runs in the thorough tier
					}
					for _, o := range []bool{false, true} {
						for _, s := range []bool{false, true} {
							out = append(out, c14Flags{Arrays: ar.a, Precision: ar.p, Yaml: y, Color: c, Format: f, Out: o, Stdin: s})
						}
					}
				}
			}
		}
	}
	return out
}

var c14Bins = []string{"v2", "top", "top-v1"}

func init() {
	engine.Register(&engine.Check{
		ID: "C14",
		Rule: "for every ordered pair of the input files x the complete set of valid flag vectors over {-set|-mset|-setkeys id|none(+-precision 0.1)} x -yaml x -color x -f {default,patch,merge (thorough: also jd)} x -o x {FILE2|stdin} x {v2/jd, top-level, top-level -v2=false}: " +
			"exit status, stdout and -o file of the real process are compared with a model that calls the library directly; every diff-mode run that exits 0/1 (without -color) is fed to jd -p with the same flags and must reproduce b; " +
			"translate mode -t X2Y (6 values), -git-diff-driver, and the invalid vectors (-p with -t, -precision with -set/-mset, unknown -f / -t, empty -setkeys component, wrong arity, unreadable or unparsable input) must exit as specified without a stack trace; non-trivial = the process produced output or an error",
		Bounds: func(tier string) map[string]interface{} {
			n := len(c14Docs)
			if tier != "thorough" {
				n = 13
			}
			return map[string]interface{}{"input_files": n, "raw_inputs": len(c14Raw), "flag_vectors": len(c14FlagSpace(tier)), "binaries": c14Bins}
		},
		Enum: enumC14,
		Run:  runC14,
		Required: func(string) []string {
			return []string{"diff/exit=0", "diff/exit=1", "diff/exit=2", "patch-roundtrip", "translate", "invalid", "git-diff-driver"}
		},
		Assume: []string{"the CLI contract model is the composition of library calls described in DESIGN.md section 6 (C14) and Appendix B", "no verdict on the wording of error messages or the usage text"},
		Budget: budget(9*time.Minute, 45*time.Minute),
	})
}

func enumC14(tier string, e *engine.Emitter) {
	// quick tier: the 64 KiB-line document meets only itself, the first document and the empty file
	skipBig := func(a, b string) bool {
		if tier == "thorough" || (len(a) < 65536 && len(b) < 65536) {
			return false
		}
		other := a
		if len(a) >= 65536 {
			other = b
		}
		return !(other == c14Docs[0] || other == "" || len(other) >= 65536)
	}
	docs := c14Docs
	if tier != "thorough" {
		docs = docs[:14]
	}
	flags := c14FlagSpace(tier)
	for _, bin := range c14Bins {
		for _, f := range flags {
			fs := f.String()
			for _, a := range docs {
				for _, b := range docs {
					if skipBig(a, b) {
						continue
					}
					e.Emit(engine.Case{Kind: "c14diff:" + bin, Leg: "diff/" + bin, A: a, B: b, X: fs})
				}
			}
			if !f.Out && !f.Color {
				for _, r := range c14Raw {
					e.Emit(engine.Case{Kind: "c14diff:" + bin, Leg: "diff-raw/" + bin, A: r, B: docs[0], X: fs})
					e.Emit(engine.Case{Kind: "c14diff:" + bin, Leg: "diff-raw/" + bin, A: docs[0], B: r, X: fs})
				}
			}
		}
		for _, t := range []string{"jd2patch", "patch2jd", "jd2merge", "merge2jd", "json2yaml", "yaml2json"} {
			for _, a := range docs {
				for _, b := range docs {
					if skipBig(a, b) {
						continue
					}
					for _, io := range []string{"", "@o", "@stdin"} {
						e.Emit(engine.Case{Kind: "c14trans:" + bin, Leg: "translate/" + bin, A: a, B: b, X: t + " " + io})
					}
				}
			}
		}
		for _, a := range docs[:4] {
			for _, b := range docs[:4] {
				for _, fl := range []string{"", "-set", "-mset", "-precision 0.1", "-setkeys id", "-f patch", "-f merge", "-set -f merge", "-color"} {
					e.Emit(engine.Case{Kind: "c14git:" + bin, Leg: "git-diff-driver/" + bin, A: a, B: b, X: fl})
				}
			}
		}
		for _, inv := range []string{"-p -t jd2patch A B", "-precision 0.1 -set A B", "-precision 0.1 -mset A B", "-f bogus A B", "-p -f bogus A B", "-t bogus A", "-setkeys id,, A B", "-setkeys , A B",
			"", "A B B", "-t json2yaml A B", "MISSING B", "A MISSING", "-p MISSING A", "-git-diff-driver A B", "-nosuchflag A B", "-precision x A B", "-p A B", "-p -f patch A B", "-t patch2jd A", "-t jd2merge A"} {
			e.Emit(engine.Case{Kind: "c14inv:" + bin, Leg: "invalid/" + bin, A: docs[0], B: docs[1], X: inv})
		}
	}
}

// ---------------------------------------------------------------------------------------
// the contract model: what the library gives for these options
// ---------------------------------------------------------------------------------------

type c14Expect struct {
	Exit int
	Out  string
}

func fileText(doc string, yaml bool) string {
	if strings.HasPrefix(doc, "raw:") {
		return cli.ExpandBytes(strings.TrimPrefix(doc, "raw:"))
	}
	if yaml {
		return ref.YAMLBlock(ref.MustParse(doc))
	}
	return doc
}

func modelDiff(lib string, f c14Flags, aText, bText string) (exp c14Expect) {
	defer func() {
		if r := recover(); r != nil {
			exp = c14Expect{Exit: -99, Out: fmt.Sprint("library panicked: ", r)}
		}
	}()
	if lib == "v1" {
		var a, b v1.JsonNode
		var err error
		read := v1.ReadJsonString
		if f.Yaml {
			read = v1.ReadYamlString
		}
		if a, err = read(aText); err != nil {
			return c14Expect{Exit: 2}
		}
		if b, err = read(bText); err != nil {
			return c14Expect{Exit: 2}
		}
		o := impl.OptionsV1(strings.ReplaceAll(f.optName(), "SETKEYS:", "SETKEYS:"))
		meta := o.Meta
		if !f.Precision {
			meta = append(meta, v1.SetPrecision(0))
		}
		d := a.Diff(b, meta...)
		var s string
		switch f.Format {
		case "", "jd":
			if f.Color {
				s = d.Render(v1.COLOR)
			} else {
				s = d.Render()
			}
			if s != "" {
				return c14Expect{1, s}
			}
		case "patch":
			if s, err = d.RenderPatch(); err != nil {
				return c14Expect{Exit: 2}
			}
			if s != "[]" {
				return c14Expect{1, s}
			}
		case "merge":
			if s, err = d.RenderMerge(); err != nil {
				return c14Expect{Exit: 2}
			}
			if s != "{}" {
				return c14Expect{1, s}
			}
		}
		return c14Expect{0, s}
	}
	var a, b jd.JsonNode
	var err error
	read := jd.ReadJsonString
	if f.Yaml {
		read = jd.ReadYamlString
	}
	if a, err = read(aText); err != nil {
		return c14Expect{Exit: 2}
	}
	if b, err = read(bText); err != nil {
		return c14Expect{Exit: 2}
	}
	o := impl.Options(f.optName())
	opts := o.Opts
	if !f.Precision {
		opts = append(opts, jd.Precision(0))
	}
	d := a.Diff(b, opts...)
	var s string
	switch f.Format {
	case "", "jd":
		if f.Color {
			s = d.Render(jd.COLOR)
		} else {
			s = d.Render()
		}
		if s != "" {
			return c14Expect{1, s}
		}
	case "patch":
		if s, err = d.RenderPatch(); err != nil {
			return c14Expect{Exit: 2}
		}
		if s != "[]" {
			return c14Expect{1, s}
		}
	case "merge":
		if s, err = d.RenderMerge(); err != nil {
			return c14Expect{Exit: 2}
		}
		if s != "{}" {
			return c14Expect{1, s}
		}
	}
	return c14Expect{0, s}
}

func modelPatch(lib string, f c14Flags, diffText, aText string) (exp c14Expect) {
	defer func() {
		if r := recover(); r != nil {
			exp = c14Expect{Exit: -99, Out: fmt.Sprint("library panicked: ", r)}
		}
	}()
	if lib == "v1" {
		var d v1.Diff
		var err error
		switch f.Format {
		case "", "jd":
			d, err = v1.ReadDiffString(diffText)
		case "patch":
			d, err = v1.ReadPatchString(diffText)
		case "merge":
			d, err = v1.ReadMergeString(diffText)
		}
		if err != nil {
			return c14Expect{Exit: 2}
		}
		read := v1.ReadJsonString
		if f.Yaml {
			read = v1.ReadYamlString
		}
		a, err := read(aText)
		if err != nil {
			return c14Expect{Exit: 2}
		}
		r, err := a.Patch(d)
		if err != nil {
			return c14Expect{Exit: 2}
		}
		o := impl.OptionsV1(f.optName())
		meta := o.Meta
		if !f.Precision {
			meta = append(meta, v1.SetPrecision(0))
		}
		if f.Yaml {
			return c14Expect{0, r.Yaml(meta...)}
		}
		return c14Expect{0, r.Json(meta...)}
	}
	var d jd.Diff
	var err error
	switch f.Format {
	case "", "jd":
		d, err = jd.ReadDiffString(diffText)
	case "patch":
		d, err = jd.ReadPatchString(diffText)
	case "merge":
		d, err = jd.ReadMergeString(diffText)
	}
	if err != nil {
		return c14Expect{Exit: 2}
	}
	read := jd.ReadJsonString
	if f.Yaml {
		read = jd.ReadYamlString
	}
	a, err := read(aText)
	if err != nil {
		return c14Expect{Exit: 2}
	}
	r, err := a.Patch(d)
	if err != nil {
		return c14Expect{Exit: 2}
	}
	o := impl.Options(f.optName())
	opts := o.Opts
	if !f.Precision {
		opts = append(opts, jd.Precision(0))
	}
	if f.Yaml {
		return c14Expect{0, r.Yaml(opts...)}
	}
	return c14Expect{0, r.Json(opts...)}
}

func binOf(kind string) (path string, lib string, extra []string) {
	switch kind[strings.Index(kind, ":")+1:] {
	case "v2":
		return cli.Bin("jd-v2"), "v2", nil
	case "top":
		return cli.Bin("jd-top"), "v2", nil
	default:
		return cli.Bin("jd-top"), "v1", []string{"-v2=false"}
	}
}

func crashed(o cli.Out) bool {
	return strings.Contains(o.Stderr, "panic:") || strings.Contains(o.Stderr, "goroutine ") || o.Exit > 2 || o.Exit < 0 || o.Timeout
}

func runC14(c *engine.Case) engine.Result {
	switch {
	case strings.HasPrefix(c.Kind, "c14diff:"):
		return runC14Diff(c)
	case strings.HasPrefix(c.Kind, "c14trans:"):
		return runC14Trans(c)
	case strings.HasPrefix(c.Kind, "c14git:"):
		return runC14Git(c)
	default:
		return runC14Invalid(c)
	}
}

func runC14Diff(c *engine.Case) engine.Result {
	bin, lib, extra := binOf(c.Kind)
	f := parseC14Flags(c.X)
	res := engine.Result{}
	dir := cli.TempDir()
	defer os.RemoveAll(dir)
	aText, bText := fileText(c.A, f.Yaml), fileText(c.B, f.Yaml)
	fa := cli.WriteFile(dir, "a.in", aText)
	args := append(append([]string{}, extra...), f.args()...)
	outFile := filepath.Join(dir, "out.diff")
	if f.Out {
		args = append(args, "-o", outFile)
		// the file already exists and is longer than anything jd will write
		os.WriteFile(outFile, []byte(strings.Repeat("stale output from an earlier run\n", 200)), 0644)
	}
	args = append(args, fa)
	var stdin *string
	if f.Stdin {
		stdin = &bText
	} else {
		args = append(args, cli.WriteFile(dir, "b.in", bText))
	}
	// the same bytes arrive through a pipe, a regular file or (when empty) /dev/null, in rotation over the cases
	stdinHow := []string{"pipe", "file", "null"}[(len(c.A)+len(c.B)+len(c.X))%3]
	// every other case runs in a hostile environment (NO_COLOR, TERM=dumb, Turkish locale, no HOME, ...): the
	// contract does not mention the environment, so nothing may change
	var env []string
	if (len(c.A)+len(c.B)+len(c.X))%2 == 1 {
		env = cli.HostileEnv
	}
	got := cli.RunEnv(dir, bin, args, stdin, stdinHow, env)
	res.Transitions++
	res.Traces++
	want := modelDiff(lib, f, aText, bText)
	res.Bucket = fmt.Sprintf("diff/exit=%d", got.Exit)
	res.Nontrivial = got.Stdout != "" || got.Exit != 0 || f.Out
	fail := func(msg string) engine.Result {
		res.Violation = fmt.Sprintf("%s | flags: %s %s | stdout=%q stderr=%q", msg, strings.Join(extra, " "), c.X, got.Stdout, firstLine(got.Stderr))
		return res
	}
	if crashed(got) {
		return fail("the process crashed or hung")
	}
	if want.Exit == -99 {
		return fail("the library itself panicked for these options: " + want.Out)
	}
	if got.Exit != want.Exit {
		return fail(fmt.Sprintf("exit status %d, the library result implies %d", got.Exit, want.Exit))
	}
	if want.Exit == 2 {
		if strings.TrimSpace(got.Stderr) == "" {
			return fail("exit status 2 without a message on stderr")
		}
		if got.Stdout != "" {
			return fail("exit status 2 but stdout is not empty")
		}
		return res
	}
	produced := got.Stdout
	if f.Out {
		if got.Stdout != "" {
			return fail("-o given but stdout is not empty")
		}
		b, err := os.ReadFile(outFile)
		if err != nil {
			return fail("-o given but the file was not written")
		}
		produced = string(b)
	}
	if produced != want.Out {
		return fail(fmt.Sprintf("output differs from the library rendering %q", want.Out))
	}
	if f.Color || strings.HasPrefix(c.A, "raw:") || strings.HasPrefix(c.B, "raw:") {
		return res
	}
	// -p round trip with the same flags
	aV, bV := ref.MustParse(c.A), ref.MustParse(c.B)
	rd := impl.Options(f.optName())
	if lib == "v1" && strings.HasPrefix(f.Arrays, "-setkeys") {
		rd.Reading = ref.List // v1: Setkeys without SET keeps list semantics
	}
	if f.Format == "merge" {
		if ref.HasNull(aV) || ref.HasNull(bV) || ref.IsVoid(aV) || ref.IsVoid(bV) {
			return res
		}
		if _, isObj := aV.(map[string]interface{}); !isObj && ref.JSON(bV) == "{}" {
			return res // F-C12-2 / F-C18-1: `{}` is read as the no-op merge patch
		}
	}
	if f.Format == "patch" && (ref.IsVoid(aV) || ref.IsVoid(bV)) {
		// root removal has no well-defined RFC 6902 reading; not part of the contract leg
		return res
	}
	if strings.HasPrefix(f.Arrays, "-setkeys") {
		// the statement's precondition: every array-member object carries all the keys
		keys := strings.Split(strings.Fields(f.Arrays)[1], ",")
		if !membersCarryKeys(aV, keys) || !membersCarryKeys(bV, keys) {
			return res
		}
	}
	fd := cli.WriteFile(dir, "the.diff", produced)
	pargs := append(append([]string{}, extra...), "-p")
	pargs = append(pargs, f.args()...)
	pOut := filepath.Join(dir, "patched.out")
	if f.Out && !f.Stdin && (len(c.A)+len(c.B))%2 == 0 {
		// patching in place: the output file is the document being patched
		pOut = fa
		pargs = append(pargs, "-o", pOut)
	} else if f.Out {
		// the patch mode honours -o as well, over an existing longer file
		os.WriteFile(pOut, []byte(strings.Repeat("stale output from an earlier run\n", 200)), 0644)
		pargs = append(pargs, "-o", pOut)
	}
	var pStdin *string
	if f.Stdin {
		pargs = append(pargs, fd) // the document to patch comes from stdin
		pStdin = &aText
	} else {
		pargs = append(pargs, fd, fa)
	}
	pgot := cli.RunEnv(dir, bin, pargs, pStdin, stdinHow, env)
	if f.Out && pgot.Exit == 0 {
		if pgot.Stdout != "" {
			res.Violation = fmt.Sprintf("jd -p -o printed to stdout: %q | flags: -p %s %s", pgot.Stdout, strings.Join(extra, " "), c.X)
			return res
		}
		if b, err := os.ReadFile(pOut); err == nil {
			pgot.Stdout = string(b)
		}
	}
	res.Transitions++
	res.Traces++
	res.Bucket += "/patch-roundtrip"
	pwant := modelPatch(lib, f, produced, aText)
	pfail := func(msg string) engine.Result {
		res.Violation = fmt.Sprintf("%s | flags: -p %s %s | diff=%q stdout=%q stderr=%q", msg, strings.Join(extra, " "), c.X, produced, pgot.Stdout, firstLine(pgot.Stderr))
		return res
	}
	if crashed(pgot) {
		return pfail("jd -p crashed or hung")
	}
	if pgot.Exit != 0 {
		return pfail(fmt.Sprintf("jd -p on the diff jd just printed exits %d", pgot.Exit))
	}
	if pwant.Exit == 0 && pgot.Stdout != pwant.Out {
		return pfail(fmt.Sprintf("jd -p output differs from the library rendering %q", pwant.Out))
	}
	var back V
	var err error
	if f.Yaml {
		var n jd.JsonNode
		n, err = jd.ReadYamlString(pgot.Stdout)
		if err == nil {
			back, err = impl.ToV(n)
		}
	} else {
		back, err = ref.Parse(pgot.Stdout)
	}
	if err != nil {
		return pfail("jd -p output is not a document: " + err.Error())
	}
	ok := ref.Equal(back, bV, rd.Reading)
	if f.Precision {
		ok = ref.EqualEps(back, bV, 0.1) || ref.NearBoundary(back, bV, 0.1)
	}
	if !ok {
		return pfail(fmt.Sprintf("jd -p reproduces %s, not b (%v reading)", ref.JSON(back), rd.Reading))
	}
	return res
}

func runC14Trans(c *engine.Case) engine.Result {
	bin, lib, extra := binOf(c.Kind)
	t := strings.Fields(c.X)
	mode := t[0]
	io := ""
	if len(t) > 1 {
		io = t[1]
	}
	res := engine.Result{Bucket: "translate/" + mode}
	dir := cli.TempDir()
	defer os.RemoveAll(dir)
	// build the input text with the library under test (v2 or v1), from the diff of A and B
	var input string
	var want c14Expect
	func() {
		defer func() {
			if r := recover(); r != nil {
				want = c14Expect{Exit: -99, Out: fmt.Sprint(r)}
			}
		}()
		errExit := func(err error) bool {
			if err != nil {
				want = c14Expect{Exit: 2}
				return true
			}
			return false
		}
		if lib == "v1" {
			a, b := impl.ReadV1(c.A), impl.ReadV1(c.B)
			switch mode {
			case "jd2patch", "jd2merge":
				if mode == "jd2merge" {
					input = a.Diff(b, v1.MERGE).Render()
				} else {
					input = a.Diff(b).Render()
				}
				d, err := v1.ReadDiffString(input)
				if errExit(err) {
					return
				}
				var s string
				if mode == "jd2patch" {
					s, err = d.RenderPatch()
				} else {
					s, err = d.RenderMerge()
				}
				if errExit(err) {
					return
				}
				want = c14Expect{0, s}
			case "patch2jd":
				s, err := a.Diff(b).RenderPatch()
				if err != nil {
					s = "[]"
				}
				input = s
				d, err := v1.ReadPatchString(input)
				if errExit(err) {
					return
				}
				want = c14Expect{0, d.Render()}
			case "merge2jd":
				s, err := a.Diff(b, v1.MERGE).RenderMerge()
				if err != nil {
					s = "{}"
				}
				input = s
				d, err := v1.ReadMergeString(input)
				if errExit(err) {
					return
				}
				want = c14Expect{0, d.Render()}
			case "json2yaml":
				input = c.A
				want = c14Expect{0, a.Yaml()}
			case "yaml2json":
				input = ref.YAMLBlock(ref.MustParse(c.A))
				n, err := v1.ReadYamlString(input)
				if errExit(err) {
					return
				}
				want = c14Expect{0, n.Json()}
			}
			return
		}
		a, b := impl.Read(c.A), impl.Read(c.B)
		switch mode {
		case "jd2patch", "jd2merge":
			if mode == "jd2merge" {
				input = a.Diff(b, jd.MERGE).Render()
			} else {
				input = a.Diff(b).Render()
			}
			d, err := jd.ReadDiffString(input)
			if errExit(err) {
				return
			}
			var s string
			if mode == "jd2patch" {
				s, err = d.RenderPatch()
			} else {
				s, err = d.RenderMerge()
			}
			if errExit(err) {
				return
			}
			want = c14Expect{0, s}
		case "patch2jd":
			s, err := a.Diff(b).RenderPatch()
			if err != nil {
				s = "[]"
			}
			input = s
			d, err := jd.ReadPatchString(input)
			if errExit(err) {
				return
			}
			want = c14Expect{0, d.Render()}
		case "merge2jd":
			s, err := a.Diff(b, jd.MERGE).RenderMerge()
			if err != nil {
				s = "{}"
			}
			input = s
			d, err := jd.ReadMergeString(input)
			if errExit(err) {
				return
			}
			want = c14Expect{0, d.Render()}
		case "json2yaml":
			input = c.A
			want = c14Expect{0, a.Yaml()}
		case "yaml2json":
			input = ref.YAMLBlock(ref.MustParse(c.A))
			n, err := jd.ReadYamlString(input)
			if errExit(err) {
				return
			}
			want = c14Expect{0, n.Json()}
		}
	}()
	args := append(append([]string{}, extra...), "-t", mode)
	outFile := filepath.Join(dir, "out.txt")
	if io == "@o" {
		args = append(args, "-o", outFile)
		os.WriteFile(outFile, []byte(strings.Repeat("stale output from an earlier run\n", 200)), 0644)
	}
	var stdin *string
	if io == "@stdin" {
		stdin = &input
	} else {
		args = append(args, cli.WriteFile(dir, "in.txt", input))
	}
	got := cli.RunWith(dir, bin, args, stdin, []string{"pipe", "file", "null"}[(len(c.A)+len(c.X))%3])
	res.Transitions++
	res.Traces++
	res.Nontrivial = true
	fail := func(msg string) engine.Result {
		res.Violation = fmt.Sprintf("%s | flags: %s -t %s | input=%q stdout=%q stderr=%q", msg, strings.Join(extra, " "), c.X, input, got.Stdout, firstLine(got.Stderr))
		return res
	}
	if crashed(got) {
		return fail("the process crashed or hung")
	}
	if want.Exit == -99 {
		return fail("the library panicked: " + want.Out)
	}
	if got.Exit != want.Exit {
		return fail(fmt.Sprintf("exit status %d, the library result implies %d", got.Exit, want.Exit))
	}
	if want.Exit != 0 {
		return res
	}
	produced := got.Stdout
	if io == "@o" {
		if got.Stdout != "" {
			return fail("-o given but stdout is not empty")
		}
		b, err := os.ReadFile(outFile)
		if err != nil {
			return fail("-o given but the file was not written")
		}
		produced = string(b)
	}
	if produced != want.Out {
		return fail(fmt.Sprintf("output differs from the library translation %q", want.Out))
	}
	return res
}

func runC14Git(c *engine.Case) engine.Result {
	bin, _, extra := binOf(c.Kind)
	res := engine.Result{Bucket: "git-diff-driver", Nontrivial: true}
	dir := cli.TempDir()
	defer os.RemoveAll(dir)
	fa, fb := cli.WriteFile(dir, "a.json", c.A), cli.WriteFile(dir, "b.json", c.B)
	f := parseC14Flags(c.X)
	// git passes: path old-file old-hex old-mode new-file new-hex new-mode
	args := append(append([]string{}, extra...), f.args()...)
	args = append(args, "-git-diff-driver", "path", fa, "0000", "100644", fb, "1111", "100644")
	got := cli.Run(dir, bin, args, nil)
	res.Transitions++
	res.Traces++
	// the git driver always uses the v2 library, with the options given on the command line
	want := modelDiff("v2", f, c.A, c.B)
	if crashed(got) {
		res.Violation = "git diff driver crashed: " + firstLine(got.Stderr)
		return res
	}
	if len(extra) > 0 && c.X != "" {
		return res // -v2=false: the v1 option parser is used but the v2 diff runs without options; not part of the contract
	}
	switch {
	case want.Exit == 2 && got.Exit != 2:
		res.Violation = fmt.Sprintf("git diff driver with %q exits %d although the library reports an error", c.X, got.Exit)
	case want.Exit != 2 && got.Stdout != want.Out:
		res.Violation = fmt.Sprintf("git diff driver with %q printed %q, the library renders %q", c.X, got.Stdout, want.Out)
	}
	return res
}

func runC14Invalid(c *engine.Case) engine.Result {
	bin, _, extra := binOf(c.Kind)
	res := engine.Result{Bucket: "invalid", Nontrivial: true}
	dir := cli.TempDir()
	defer os.RemoveAll(dir)
	fa, fb := cli.WriteFile(dir, "a.json", c.A), cli.WriteFile(dir, "b.json", c.B)
	args := append([]string{}, extra...)
	for _, t := range strings.Fields(c.X) {
		switch t {
		case "A":
			args = append(args, fa)
		case "B":
			args = append(args, fb)
		case "MISSING":
			args = append(args, filepath.Join(dir, "does-not-exist"))
		default:
			args = append(args, t)
		}
	}
	empty := ""
	got := cli.Run(dir, bin, args, &empty)
	res.Transitions++
	res.Traces++
	if crashed(got) {
		res.Violation = fmt.Sprintf("crash or hang on invalid invocation %q: %s", c.X, firstLine(got.Stderr))
		return res
	}
	if got.Exit != 2 {
		res.Violation = fmt.Sprintf("invalid invocation %q exits %d, expected 2 (stdout %q, stderr %q)", c.X, got.Exit, got.Stdout, firstLine(got.Stderr))
	}
	return res
}

// stripStamp removes the log timestamp and scratch paths so that a violation message is the
// same on every replay.
func stripStamp(s string) string {
	if len(s) > 20 && s[4] == '/' && s[7] == '/' && s[10] == ' ' {
		s = s[20:]
	}
	for {
		i := strings.Index(s, "/.work/tmp/p")
		if i < 0 {
			break
		}
		j := i + len("/.work/tmp/p")
		for j < len(s) && (s[j] == '-' || (s[j] >= '0' && s[j] <= '9')) {
			j++
		}
		k := strings.LastIndex(s[:i], " ")
		s = s[:k+1] + "<scratch>" + s[j:]
	}
	return s
}

// membersCarryKeys reports whether every object that is a direct member of an array carries
// all the given keys (the precondition of the keyed-set reading).
func membersCarryKeys(v V, keys []string) bool {
	switch t := v.(type) {
	case []interface{}:
		for _, e := range t {
			if o, ok := e.(map[string]interface{}); ok {
				for _, k := range keys {
					if _, has := o[k]; !has {
						return false
					}
				}
			}
			if !membersCarryKeys(e, keys) {
				return false
			}
		}
	case map[string]interface{}:
		for _, e := range t {
			if !membersCarryKeys(e, keys) {
				return false
			}
		}
	}
	return true
}

package checks

import (
	"fmt"
	"os"
	"strings"
	"time"

	v1 "github.com/josephburnett/jd/lib"

	"verif/mc/cli"
	"verif/mc/engine"
	"verif/mc/impl"
	"verif/mc/ref"
)

var c17Opts = []string{"none", "SET", "MULTISET", "SETKEYS:id", "SET+SETKEYS:id", "SET+SETKEYS:id,t", "MERGE", "PRECISION:0.1", "PRECISION:0.5"}

// c17Partial: keyed arrays for Setkeys(id,t) in which some members carry only one of the two
// keys and differ in two non-key fields (so that one diff has two hunks inside one member).
func c17Partial() *TextSet {
	return memoize("c17partial", func() *TextSet {
		var m1, m2 []V
		for _, p := range []V{1.0, 2.0} {
			for _, q := range []V{1.0, 2.0} {
				m1 = append(m1, map[string]interface{}{"id": 1.0, "p": p, "q": q})
			}
			m2 = append(m2, map[string]interface{}{"id": 2.0, "t": "x", "p": p})
		}
		out := []V{[]interface{}{}}
		for _, a := range m1 {
			out = append(out, []interface{}{a})
			for _, b := range m2 {
				out = append(out, []interface{}{a, b}, []interface{}{b, a}, map[string]interface{}{"items": []interface{}{a, b}})
			}
		}
		for _, b := range m2 {
			out = append(out, []interface{}{b})
		}
		// one member that carries none of the set keys, after and before keyed members
		for _, v := range []V{1.0, 2.0} {
			n := map[string]interface{}{"name": "x", "v": v}
			out = append(out, []interface{}{n}, []interface{}{m1[0], n}, []interface{}{n, m2[0]}, []interface{}{m1[3], n, m2[1]}, map[string]interface{}{"items": []interface{}{m2[0], n}})
		}
		return NewTextSet(out)
	})
}

func c17Legs(tier, o string) []pairLeg {
	switch o {
	case "SET+SETKEYS:id,t":
		legs := pairSpace(tier, "SETKEYS:id,t")
		return append(legs, pairLeg{"Kpartial", c17Partial(), c17Partial()})
	case "SET+SETKEYS:id":
		legs := pairSpace(tier, "SETKEYS:id")
		return append(legs, pairLeg{"Kpartial", c17Partial(), c17Partial()})
	case "SETKEYS:id":
		legs := pairSpace(tier, "SETKEYS:id")
		return append(legs, pairLeg{"A3x6", Arr(3, "6"), Arr(3, "6")})
	case "PRECISION:0.5":
		ex := c04ExactDocs()
		return []pairLeg{{"precision-exact-boundary", ex, ex}}
	case "PRECISION:0.1":
		pr := c04PrecisionDocs()
		return []pairLeg{{"precision", pr, pr}, {"A3x6", Arr(3, "6"), Arr(3, "6")}}
	}
	return pairSpace(tier, o)
}

func init() {
	engine.Register(&engine.Check{
		ID: "C17",
		Rule: "v1 library (package lib): all ordered pairs (a,b) of the C01 universes x {none, SET, MULTISET, Setkeys(id), SET+Setkeys(id), MERGE on null-free, SetPrecision(0.1)}: a.Diff(b) applied to a in memory and after Render/ReadDiffString " +
			"must give a document that Equals b (and equals b under the reference reading); the diff is empty exactly when Equals holds (and when the reference says equal); non-trivial = diff non-empty",
		Bounds: func(tier string) map[string]interface{} {
			m := map[string]interface{}{}
			for _, o := range c17Opts {
				for _, l := range c17Legs(tier, o) {
					m[l.Name+"/"+o] = map[string]int{"documents": l.A.Len(), "ordered_pairs": l.A.Len() * l.A.Len()}
				}
			}
			return m
		},
		Enum: func(tier string, e *engine.Emitter) {
			e.Emit(engine.Case{Kind: "c17race", Leg: "concurrency/race-detector", A: "v1"})
			// the v1 API through the top-level binary: jd -v2=false FLAGS a b, then jd -v2=false -p FLAGS diff a
			for _, fl := range []string{"", "-set", "-mset", "-set -setkeys id,t", "-setkeys id,t"} { // (id alone does not identify these members)
				for _, a := range c17CLIDocs {
					for _, b := range c17CLIDocs {
						e.Emit(engine.Case{Kind: "c17cli", Leg: "cli/-v2=false", A: a, B: b, X: fl})
					}
				}
			}
			al := NewTextSet(AliasDocs())
			for _, o := range []string{"none", "SET", "MULTISET"} {
				pairs(e, "c17:"+o, "alias/"+o, al, al)
			}
			for _, o := range c17Opts {
				for _, l := range c17Legs(tier, o) {
					pairs(e, "c17:"+o, l.Name+"/"+o, l.A, l.B)
				}
			}
		},
		Run:      runC17,
		Required: func(string) []string { return []string{"multi-hunk", "single-hunk", "empty-diff"} },
		Assume:   []string{"reference equality = canonical forms", "MERGE only on null-free documents", "Setkeys on arrays whose member objects carry the key with unique values"},
		Budget:   budget(7*time.Minute, 40*time.Minute),
	})
}

// members share "id" and are told apart by "t"; every member carries both keys
var c17CLIDocs = []string{`[{"id":1,"t":"a","v":0},{"id":1,"t":"b","v":0},{"id":2,"t":"a","v":0}]`, `[{"id":1,"t":"a","v":0},{"id":1,"t":"b","v":1},{"id":2,"t":"a","v":0}]`,
	`[{"id":2,"t":"a","v":0},{"id":1,"t":"b","v":0},{"id":1,"t":"a","v":5}]`, `[{"id":1,"t":"b","v":0}]`, `[]`, `[{"id":1,"t":"a","v":[1,2]},{"id":1,"t":"b","v":[2,1]}]`,
	`{"k":[{"id":1,"t":"a","v":0},{"id":1,"t":"b","v":2}]}`, `{"k":[{"id":1,"t":"b","v":3},{"id":1,"t":"a","v":0}]}`}

func runC17CLI(c *engine.Case) engine.Result {
	res := engine.Result{Traces: 1, Nontrivial: c.A != c.B, Bucket: "cli/" + c.X}
	reading := ref.List
	if strings.Contains(c.X, "-set") {
		reading = ref.Set
	} else if strings.Contains(c.X, "-mset") {
		reading = ref.Multiset
	}
	dir := cli.TempDir()
	defer os.RemoveAll(dir)
	fa, fb := cli.WriteFile(dir, "a.json", c.A), cli.WriteFile(dir, "b.json", c.B)
	flags := append([]string{"-v2=false"}, strings.Fields(c.X)...)
	out := cli.Run(dir, cli.Bin("jd-top"), append(append([]string{}, flags...), fa, fb), nil)
	res.Transitions++
	equal := ref.Equal(ref.MustParse(c.A), ref.MustParse(c.B), reading)
	switch {
	case out.Timeout:
		res.Violation = "CLI did not terminate"
	case equal && out.Exit != 0, !equal && out.Exit != 1:
		res.Violation = fmt.Sprintf("jd %s a b: inputs equal=%v under the flags but exit status %d (%s)", strings.Join(flags, " "), equal, out.Exit, firstLine(out.Stderr))
	}
	if res.Violation != "" || equal {
		return res
	}
	fd := cli.WriteFile(dir, "d.diff", out.Stdout)
	back := cli.Run(dir, cli.Bin("jd-top"), append(append([]string{"-p"}, flags...), fd, fa), nil)
	res.Transitions++
	got, perr := ref.Parse(back.Stdout)
	if back.Exit != 0 || perr != nil || ref.IsVoid(got) || !ref.Equal(got, ref.MustParse(c.B), reading) {
		res.Violation = fmt.Sprintf("jd -p %s applied to the printed diff: exit %d, output %q (stderr %q), not b | diff:\n%s", strings.Join(flags, " "), back.Exit, back.Stdout, firstLine(back.Stderr), out.Stdout)
	}
	return res
}

func runC17(c *engine.Case) engine.Result {
	if c.Kind == "c17cli" {
		return runC17CLI(c)
	}
	if c.Kind == "c17race" {
		return runRacer(c.A)
	}
	o := impl.OptionsV1(optOf(c.Kind))
	aV, bV := ref.MustParse(c.A), ref.MustParse(c.B)
	res := engine.Result{}
	var fail, text string
	nh := 0
	var want bool
	noEqVerdict := false
	if o.Eps > 0 {
		noEqVerdict = ref.NearBoundary(aV, bV, o.Eps)
		want = ref.EqualEps(aV, bV, o.Eps)
	} else {
		want = ref.Equal(aV, bV, o.Reading)
	}
	p := impl.Guard(func() {
		a, b := impl.ReadV1(c.A), impl.ReadV1(c.B)
		eq := a.Equals(b, o.Meta...)
		d := a.Diff(b, o.Meta...)
		res.Transitions += 2
		nh = len(d)
		text = d.Render()
		if !noEqVerdict {
			res.Traces++
			if (nh == 0) != eq {
				fail = fmt.Sprintf("Diff empty=%v but Equals=%v", nh == 0, eq)
				return
			}
			if eq != want {
				fail = fmt.Sprintf("Diff empty=%v and Equals=%v, but the reference says equal=%v", nh == 0, eq, want)
				return
			}
		}
		if o.Eps > 0 && nh > 0 {
			// the round trip under precision is judged with the same tolerance
		}
		r, err := a.Patch(d)
		res.Transitions++
		if err != nil {
			fail = "in-memory Patch(a, a.Diff(b)) failed: " + err.Error()
			return
		}
		if !r.Equals(impl.ReadV1(c.B), o.Meta...) {
			fail = fmt.Sprintf("in-memory Patch result %s does not Equal b", r.Json())
			return
		}
		rv, err := impl.ToVV1(r)
		if err != nil {
			fail = "result not renderable: " + err.Error()
			return
		}
		res.Traces++
		okRef := ref.Equal(rv, bV, o.Reading)
		if o.Eps > 0 {
			okRef = ref.EqualEps(rv, bV, o.Eps) || ref.NearBoundary(rv, bV, o.Eps)
		}
		if !okRef {
			fail = fmt.Sprintf("in-memory Patch result %s is not b under the %v reading (reference)", ref.JSON(rv), o.Reading)
			return
		}
		d2, err := v1.ReadDiffString(text)
		if err != nil {
			fail = "ReadDiffString(Render(d)) failed: " + err.Error()
			return
		}
		out := impl.PatchV1(c.A, d2)
		res.Transitions += 2
		res.Traces++
		if !out.OK {
			fail = "Patch(a, ReadDiffString(Render(d))) failed: " + out.String()
			return
		}
		okRef = ref.Equal(out.Val, bV, o.Reading)
		if o.Eps > 0 {
			okRef = ref.EqualEps(out.Val, bV, o.Eps) || ref.NearBoundary(out.Val, bV, o.Eps)
		}
		if !okRef {
			fail = fmt.Sprintf("text-carried Patch result %s is not b under the %v reading", ref.JSON(out.Val), o.Reading)
		}
	})
	if p != "" {
		fail = p
	}
	res.Bucket = hunkShape(nh) + "/" + o.Name
	res.Nontrivial = nh > 0
	if fail != "" {
		res.Violation = fail + " | diff:\n" + strings.TrimRight(text, "\n")
	}
	return res
}

package checks

import (
	"fmt"
	"time"

	jd "github.com/josephburnett/jd/v2"

	"verif/mc/engine"
	"verif/mc/impl"
	"verif/mc/ref"
)

func init() {
	engine.Register(&engine.Check{
		ID: "C01",
		Rule: "all ordered pairs (a,b) of each listed universe x each option set; a.Diff(b,o) is applied to a as returned (in memory) " +
			"and, separately, after Render/ReadDiffString; non-trivial = the diff is non-empty; distinct = distinct (options,a,b)",
		Bounds: pairBounds(allOptSets),
		Enum:   enumPairs("c01", allOptSets),
		Run:    runC01,
		Required: func(string) []string {
			return []string{"multi-hunk", "single-hunk", "empty-diff"}
		},
		Assume: []string{"reference equality = canonical forms (ref.Canon)", "documents beyond the bounds are not covered",
			"SetKeys only on arrays whose member objects carry all keys with unique values", "MERGE only on null-free documents"},
		Budget: budget(7*time.Minute, 40*time.Minute),
	})
}

func runC01(c *engine.Case) engine.Result {
	o := impl.Options(optOf(c.Kind))
	bV := ref.MustParse(c.B)
	res := engine.Result{}
	var fail string
	var nh int
	var text string
	p := impl.Guard(func() {
		a := impl.Read(c.A)
		b := impl.Read(c.B)
		d := a.Diff(b, o.Opts...)
		nh = len(d)
		text = d.Render()
		res.Transitions += 2
		r, err := a.Patch(d)
		res.Transitions++
		if err != nil {
			fail = "in-memory Patch(a, a.Diff(b)) failed: " + err.Error()
			return
		}
		b2 := impl.Read(c.B)
		if !r.Equals(b2, o.Opts...) {
			fail = fmt.Sprintf("in-memory Patch result %s does not Equal b", r.Json())
			return
		}
		rv, err := impl.ToV(r)
		if err != nil {
			fail = "result not renderable: " + err.Error()
			return
		}
		res.Traces++
		if !ref.Equal(rv, bV, o.Reading) {
			fail = fmt.Sprintf("in-memory Patch result %s is not b under the %v reading (reference)", ref.JSON(rv), o.Reading)
			return
		}
		// carrier 2: the rendered text
		d2, err := jd.ReadDiffString(text)
		if err != nil {
			fail = "ReadDiffString(Render(d)) failed: " + err.Error()
			return
		}
		out := impl.Patch(c.A, d2)
		res.Transitions += 2
		res.Traces++
		if !out.OK {
			fail = "Patch(a, ReadDiffString(Render(d))) failed: " + out.String()
			return
		}
		if !ref.Equal(out.Val, bV, o.Reading) {
			fail = fmt.Sprintf("text-carried Patch result %s is not b under the %v reading", ref.JSON(out.Val), o.Reading)
		}
	})
	if p != "" {
		fail = p
	}
	res.Bucket = hunkShape(nh) + "/" + o.Name
	res.Nontrivial = nh > 0
	res.Violation = fail
	if fail != "" {
		res.Violation = fail + " | diff:\n" + text
	}
	return res
}

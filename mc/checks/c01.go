package checks

import (
	"fmt"
	"strings"
	"time"

	jd "github.com/josephburnett/jd/v2"

	"verif/mc/engine"
	"verif/mc/impl"
	"verif/mc/ref"
)

func init() {
	engine.Register(&engine.Check{
		ID: "C01",
		Rule: "all ordered pairs (a,b) of each listed universe x each option set; a.Diff(b,o) is applied to a as returned (in memory) " +
			"and, separately, after Render/ReadDiffString; non-trivial = the diff is non-empty; distinct = distinct (options,a,b)",
		Bounds: pairBounds(allOptSets),
		Enum: func(tier string, e *engine.Emitter) {
			// chains: a is itself the live result of a Patch (built under each reading), the diff is taken from it and
			// applied to it, and the live result of that is diffed and patched back to a
			lv := c05LiveDocs()
			for _, con := range []string{"none", "SET", "MULTISET", "replace:none", "replace:SET"} {
				for _, o := range []string{"none", "SET", "MULTISET"} {
					pairs(e, "c01chain/"+con+":"+o, "chain/"+con+"->"+o, lv, lv)
				}
			}
			// ... and a was built by hunks whose paths lead through array positions and keyed members
			lv4 := c04LiveDocs()
			for _, con := range []string{"leaf:none", "leaf:SET", "leaf:MULTISET", "leaf:SETKEYS:id"} {
				for _, o := range []string{"none", "SET", "MULTISET"} {
					pairs(e, "c01chain/"+con+":"+o, "chain/"+con+"->"+o, lv4, lv4)
				}
			}
			near := NearNumberArrays()
			pairs(e, "c01:PRECISION:0.1", "near/PRECISION:0.1", near, near)
			enumPairs("c01", allOptSets)(tier, e)
		},
		Run: runC01,
		Required: func(string) []string {
			return []string{"multi-hunk", "single-hunk", "empty-diff"}
		},
		Assume: []string{"reference equality = canonical forms (ref.Canon)", "documents beyond the bounds are not covered",
			"SetKeys only on arrays whose member objects carry all keys with unique values", "MERGE only on null-free documents"},
		Budget: budget(7*time.Minute, 40*time.Minute),
	})
}

func runC01(c *engine.Case) engine.Result {
	optName := optOf(c.Kind)
	if strings.HasPrefix(c.Kind, "c01chain/") {
		optName = c.Kind[strings.LastIndex(c.Kind, ":")+1:]
	}
	o := impl.Options(optName)
	bV := ref.MustParse(c.B)
	res := engine.Result{}
	var fail string
	var nh int
	var text string
	same := func(x, y V) bool {
		if o.Eps > 0 {
			return ref.EqualEps(x, y, o.Eps)
		}
		return ref.Equal(x, y, o.Reading)
	}
	p := impl.Guard(func() {
		a := impl.Read(c.A)
		b := impl.Read(c.B)
		chain := strings.HasPrefix(c.Kind, "c01chain/")
		if chain {
			con := strings.TrimPrefix(c.Kind[:strings.LastIndex(c.Kind, ":")], "c01chain/")
			if l, ok := impl.Live(c.A, con); ok {
				if lv, err := impl.ToV(l); err == nil && ref.Equal(lv, ref.MustParse(c.A), o.Reading) {
					a = l
				}
			}
		}
		d := a.Diff(b, o.Opts...)
		nh = len(d)
		text = d.Render()
		res.Transitions += 2
		r, err := a.Patch(d)
		res.Transitions++
		if err != nil {
			fail = "in-memory Patch(a, a.Diff(b)) failed: " + err.Error()
			return
		}
		b2 := impl.Read(c.B)
		if !r.Equals(b2, o.Opts...) {
			fail = fmt.Sprintf("in-memory Patch result %s does not Equal b", r.Json())
			return
		}
		rv, err := impl.ToV(r)
		if err != nil {
			fail = "result not renderable: " + err.Error()
			return
		}
		res.Traces++
		if !same(rv, bV) {
			fail = fmt.Sprintf("in-memory Patch result %s is not b under the %v reading (reference)", ref.JSON(rv), o.Reading)
			return
		}
		if chain {
			// second hop, from the live result back to a
			a2 := impl.Read(c.A)
			back, err := r.Patch(r.Diff(a2, o.Opts...))
			res.Transitions += 2
			if err != nil {
				fail = "second hop: Patch(r, r.Diff(a)) on the live result r failed: " + err.Error()
				return
			}
			bv, err := impl.ToV(back)
			if err != nil || !ref.Equal(bv, ref.MustParse(c.A), o.Reading) {
				fail = fmt.Sprintf("second hop: the live result patched back gives %s, not a", back.Json())
			}
			return // (the text carrier is the subject of the ordinary legs, on a as read)
		}
		// carrier 2: the rendered text
		d2, err := jd.ReadDiffString(text)
		if err != nil {
			fail = "ReadDiffString(Render(d)) failed: " + err.Error()
			return
		}
		out := impl.Patch(c.A, d2)
		res.Transitions += 2
		res.Traces++
		if !out.OK {
			fail = "Patch(a, ReadDiffString(Render(d))) failed: " + out.String()
			return
		}
		if !same(out.Val, bV) {
			fail = fmt.Sprintf("text-carried Patch result %s is not b under the %v reading", ref.JSON(out.Val), o.Reading)
		}
	})
	if p != "" {
		fail = p
	}
	res.Bucket = hunkShape(nh) + "/" + o.Name
	res.Nontrivial = nh > 0
	res.Violation = fail
	if fail != "" {
		res.Violation = fail + " | diff:\n" + text
	}
	return res
}

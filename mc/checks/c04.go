package checks

import (
	"encoding/binary"
	"fmt"
	"hash/fnv"
	"math"
	"strings"
	"time"

	"verif/mc/engine"
	"verif/mc/impl"
	"verif/mc/ref"
)

// independent FNV-1a (little-endian digest bytes, as jd stores them)
func fnvLE(b []byte) [8]byte {
	h := fnv.New64a()
	h.Write(b)
	var out [8]byte
	binary.LittleEndian.PutUint64(out[:], h.Sum64())
	return out
}

func floatWithLEBytes(b [8]byte) (float64, bool) {
	f := math.Float64frombits(binary.LittleEndian.Uint64(b[:]))
	if math.IsNaN(f) || math.IsInf(f, 0) {
		return 0, false
	}
	return f, true
}

// AliasDocs returns Sigma_alias: one input per hashing shortcut visible in the construction
// (string = raw bytes, number = 8 IEEE bytes, empty set = empty input, null = 8 fixed bytes,
// one-element set = hash of the element hash). They are adversarial only while the shortcut
// exists and are ordinary unequal values otherwise.
func AliasDocs() []V {
	var out []V
	wrap := func(vs ...V) {
		for _, v := range vs {
			out = append(out, v, []interface{}{v}, []interface{}{v, 1.0}, map[string]interface{}{"a": []interface{}{v}})
			// beyond small scope: the same value inside a list of 130 elements / an object of 70 keys
			long := make([]interface{}, 130)
			wide := map[string]interface{}{}
			for i := range long { // filler members that alias nothing in the alphabet
				long[i] = fmt.Sprintf("e%03d", i)
			}
			for i := 0; i < 70; i++ {
				wide[fmt.Sprintf("k%02d", i)] = fmt.Sprintf("e%03d", i)
			}
			long[65], wide["k35"] = v, v
			out = append(out, long, wide)
		}
	}
	wrap(0.0, "\x00\x00\x00\x00\x00\x00\x00\x00")
	fA, _ := floatWithLEBytes([8]byte{'A', 'A', 'A', 'A', 'A', 'A', 'A', 'A'})
	wrap("AAAAAAAA", fA)
	wrap("", []interface{}{}, map[string]interface{}{}, nil)
	if fn, ok := floatWithLEBytes([8]byte{0xFE, 0x73, 0xAB, 0xCC, 0xE6, 0x32, 0xE0, 0x88}); ok {
		wrap(fn)
	}
	for _, x := range []float64{1, 2, 3} {
		var le [8]byte
		binary.LittleEndian.PutUint64(le[:], math.Float64bits(x))
		h1 := fnvLE(le[:]) // hash of the number x
		if fx, ok := floatWithLEBytes(h1); ok {
			// [x] as a one-element set hashes hash(h1); the number with bytes h1 hashes the same
			wrap([]interface{}{x}, fx)
		}
	}
	wrap("0", "1", 1.0, "true", true, "null", "false", false, "[]", "{}")
	return out
}

func c04Universe(tier string) *TextSet {
	key := "c04-" + tier
	return memoize(key, func() *TextSet {
		n := 4
		if tier == "thorough" {
			n = 4
		}
		vs := append([]V{}, UPerm(n).Vals...)
		if tier == "thorough" {
			vs = append(vs, U(5).Vals...)
		}
		return NewTextSet(vs)
	})
}

var c04Nums = []V{0.0, 1.0, 1.05, 1.2, 2.0, -1.0, 1e21, 1e-7, 0.1, 0.15, 123456789012.0, 123456789012.05, 1e300, 5e-324,
	0.30000000000000004, 0.3, 0.2, 9007199254740992.0, 9007199254740994.0, 1.0001, 1.1, 0.9}

func c04PrecisionDocs() *TextSet {
	return memoize("c04-prec", func() *TextSet {
		var out []V
		for _, x := range c04Nums {
			out = append(out, x, []interface{}{x}, map[string]interface{}{"a": x}, []interface{}{1.0, x}, map[string]interface{}{"a": []interface{}{x, "s"}},
				map[string]interface{}{"x": x, "y": 2.0}, []interface{}{map[string]interface{}{"x": x, "y": []interface{}{x}, "z": "s"}})
		}
		out = append(out, "1", nil, true, []interface{}{}, []interface{}{1.0, 1.0}, ref.Void{})
		// beyond small scope: 70 keys, 129 elements, values differing within / beyond the precision
		for _, delta := range []float64{0, 0.004, 0.05, 0.5} {
			o := map[string]interface{}{}
			l := make([]interface{}, 129)
			for i := 0; i < 70; i++ {
				o[fmt.Sprintf("k%02d", i)] = float64(i) + delta
			}
			for i := range l {
				l[i] = float64(i)
			}
			l[64] = 64 + delta
			out = append(out, o, l, map[string]interface{}{"list": l})
		}
		return NewTextSet(out)
	})
}

var c04Opts = []string{"none", "SET", "MULTISET", "SETKEYS:id"}

// c04ExactDocs: numbers that are exact binary fractions, so that |x-y| == eps is decided without
// rounding for eps = 0.5 ("maximum absolute difference for numbers to be equal": inclusive).
func c04ExactDocs() *TextSet {
	return memoize("c04-exact", func() *TextSet {
		var out []V
		for _, x := range []V{0.0, 0.5, 1.0, 1.5, 2.0, 2.25, -0.5, 3.0} {
			out = append(out, x, []interface{}{x}, map[string]interface{}{"a": x}, []interface{}{1.0, x}, map[string]interface{}{"a": []interface{}{map[string]interface{}{"b": x}}})
		}
		return NewTextSet(out)
	})
}

func init() {
	engine.Register(&engine.Check{
		ID: "C04",
		Rule: "all ordered pairs of the document universe closed under array permutation and single duplication, plus the hash-alias " +
			"alphabet (one input per hashing shortcut) in several embeddings, x {none, SET, MULTISET, SetKeys(id)}; numeric pairs x Precision(0.1); " +
			"Equals is compared with canonical-form equality, with the swapped call (symmetry) and a==a (reflexivity); non-trivial = the pair differs as text",
		Bounds: func(tier string) map[string]interface{} {
			return map[string]interface{}{
				"universe_docs": c04Universe(tier).Len(), "alias_docs": NewTextSet(AliasDocs()).Len(),
				"precision_docs": c04PrecisionDocs().Len(), "option_sets": c04Opts,
			}
		},
		Enum: func(tier string, e *engine.Emitter) {
			// start from non-initial states: a and b are the live values a caller holds after Patch
			// (built by hunks at the array level, by whole-value replacement, and by hunks whose
			// paths lead through array positions and keyed members), not freshly parsed ones
			lv := c04LiveDocs()
			for _, con := range []string{"none", "SET", "MULTISET", "replace:none", "replace:SET", "leaf:none", "leaf:SET", "leaf:MULTISET", "leaf:SETKEYS:id"} {
				for _, o := range c04Opts {
					pairs(e, "c04live/"+con+"/"+o, "live/"+con+"->"+o, lv, lv)
				}
			}
			u := c04Universe(tier)
			al := NewTextSet(AliasDocs())
			for _, o := range c04Opts {
				pairs(e, "c04:"+o, "alias/"+o, al, al)
			}
			pr := c04PrecisionDocs()
			pairs(e, "c04:PRECISION:0.1", "precision", pr, pr)
			pairs(e, "c04:PRECISION:0.001", "precision", pr, pr)
			pairs(e, "c04:PRECISION:0.2", "precision", pr, pr)
			pairs(e, "c04:PRECISION:1", "precision", pr, pr)
			pairs(e, "c04:PRECISION:0.01", "precision", pr, pr)
			ex := c04ExactDocs()
			pairs(e, "c04:PRECISION:0.5", "precision-exact-boundary", ex, ex)
			for _, o := range c04Opts {
				pairs(e, "c04:"+o, "U/"+o, u, u)
			}
			nd := NumDocs()
			for _, o := range c04Opts {
				pairs(e, "c04:"+o, "numbers/"+o, nd, nd)
			}
			sd := StrDocs()
			for _, o := range c04Opts {
				pairs(e, "c04:"+o, "strings/"+o, sd, sd)
			}
			k := Keyed(2, false)
			k = thin(k, 300)
			pairs(e, "c04:SETKEYS:id", "K/SETKEYS:id", k, k)
			kl := KeyedLoose()
			pairs(e, "c04:SETKEYS:id", "Kloose/SETKEYS:id", kl, kl)
			// option order must not matter; with integers far apart a small precision changes nothing
			small := thin(u, 250)
			for _, o := range []string{"PRECISION:0.001+SET", "SET+PRECISION:0.001", "PRECISION:0.001+MULTISET", "MULTISET+PRECISION:0.001", "PRECISION:0.001+SETKEYS:id", "SETKEYS:id+PRECISION:0.001"} {
				pairs(e, "c04:"+o, "U-order/"+o, small, small)
			}
		},
		Run:      runC04,
		Required: func(string) []string { return []string{"equal-by-reading-only", "unequal", "identical"} },
		Assume:   []string{"accidental 64-bit FNV collisions between unrelated values are not decidable by enumeration; only structural aliasing families are covered"},
		Budget:   budget(7*time.Minute, 30*time.Minute),
	})
}

func c04LiveDocs() *TextSet {
	return memoize("c04-live", func() *TextSet {
		vs := append([]V{}, c05LiveDocs().Vals...)
		vs = append(vs, thin(Keyed(2, false), 40).Vals...)
		vs = append(vs, thin(ObjInList(), 40).Vals...)
		return NewTextSet(vs)
	})
}

func runC04(c *engine.Case) engine.Result {
	construct := ""
	if strings.HasPrefix(c.Kind, "c04live/") {
		parts := strings.SplitN(strings.TrimPrefix(c.Kind, "c04live/"), "/", 2)
		construct = parts[0]
		c = &engine.Case{Kind: "c04:" + parts[1], Leg: c.Leg, A: c.A, B: c.B}
	}
	o := impl.Options(optOf(c.Kind))
	aV, bV := ref.MustParse(c.A), ref.MustParse(c.B)
	var want bool
	if o.Eps > 0 && o.Reading == ref.List {
		if ref.NearBoundary(aV, bV, o.Eps) {
			return engine.Result{Bucket: "no-verdict: on the eps boundary"}
		}
		want = ref.EqualEps(aV, bV, o.Eps)
	} else {
		want = ref.Equal(aV, bV, o.Reading)
	}
	res := engine.Result{Traces: 1}
	var fail string
	live := 0
	p := impl.Guard(func() {
		a, b := impl.Read(c.A), impl.Read(c.B)
		if construct != "" {
			// the live value stands in only where it denotes exactly the document of the case
			if l, ok := impl.Live(c.A, construct); ok {
				if lv, err := impl.ToV(l); err == nil && ref.Equal(lv, aV, ref.List) {
					a = l
					live++
				}
			}
			if l, ok := impl.Live(c.B, construct); ok {
				if lv, err := impl.ToV(l); err == nil && ref.Equal(lv, bV, ref.List) {
					b = l
					live++
				}
			}
		}
		got := a.Equals(b, o.Opts...)
		rev := b.Equals(a, o.Opts...)
		refl := a.Equals(impl.Read(c.A), o.Opts...)
		res.Transitions += 3
		switch {
		case got != want:
			fail = fmt.Sprintf("Equals=%v but the values are %s under the %v reading", got, map[bool]string{true: "equal", false: "different"}[want], o.Reading)
		case rev != got:
			fail = fmt.Sprintf("not symmetric: a.Equals(b)=%v b.Equals(a)=%v", got, rev)
		case !refl:
			fail = "not reflexive: a.Equals(a) is false"
		}
	})
	if p != "" {
		fail = p
	}
	switch {
	case c.A == c.B:
		res.Bucket = "identical"
	case want && ref.Kind(aV) == ref.Kind(bV) && !ref.Equal(aV, bV, ref.List):
		res.Bucket = "equal-by-reading-only"
	case want:
		res.Bucket = "equal"
	case ref.Kind(aV) != ref.Kind(bV):
		res.Bucket = "unequal-cross-type"
	default:
		res.Bucket = "unequal"
	}
	res.Bucket += "/" + o.Name
	if construct != "" {
		res.Bucket += fmt.Sprintf("/live-operands:%d", live)
		if fail != "" {
			fail = "with the operands built as live results of Patch (" + construct + "): " + fail
		}
	}
	res.Nontrivial = c.A != c.B
	res.Violation = fail
	return res
}

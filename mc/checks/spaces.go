package checks

import (
	"verif/mc/engine"
	"verif/mc/gen"
)

// pairLeg is one complete ordered-pair space.
type pairLeg struct {
	Name string
	A, B *TextSet
}

// pairSpace returns the ordered-pair legs of the C01 family for one option set and tier.
// Everything returned is enumerated completely.
func pairSpace(tier, opt string) []pairLeg {
	thorough := tier == "thorough"
	o := optOf("x:" + opt)
	merge := o == "MERGE" || o == "SET+MERGE" || o == "MULTISET+MERGE"
	keyed := len(o) > 8 && o[:8] == "SETKEYS:"
	var legs []pairLeg
	add := func(name string, t *TextSet) {
		if merge {
			t = nullFree(t)
		}
		legs = append(legs, pairLeg{name, t, t})
	}
	if keyed {
		two := o == "SETKEYS:id,t"
		n := 2
		if thorough && !two {
			n = 3
		}
		k := Keyed(n, two)
		if !thorough && k.Len() > 500 {
			k = thin(k, 500)
		} else if thorough && k.Len() > 2500 {
			k = thin(k, 2500)
		}
		add("K", k)
		if !two {
			add("Kstr", KeyedStr())
		} else {
			add("K2same", Keyed2Same())
		}
		keys := []string{"id"}
		if two {
			keys = []string{"id", "t"}
		}
		add("large", Large().Filter(func(v V) bool { return membersCarryKeys(v, keys) }))
		return legs
	}
	un := 4
	if thorough {
		un = 5
	}
	if o != "none" && thorough {
		// non-list readings get the permutation closure at n=4 instead of U_5
		add("U4perm", UPerm(4))
	} else if o != "none" {
		add("U3perm", UPerm(3))
		add("U4", U(4))
	} else {
		add("U", U(un))
	}
	add("deep", Deep(thorough || o == "none" || o == "MERGE"))
	add("mixed", Mixed())
	add("large", Large())
	add("huge", Huge())
	add("numbers", NumDocs())
	add("strings", StrDocs())
	add("hostile", thin(HostileDocs(), 110))
	add("hostile2", HostileDocs2())
	add("obj-in-list", ObjInList())
	switch {
	case o == "none":
		if thorough {
			add("A5x6", Arr(5, "6"))
			add("A7x123", Arr(7, "123"))
			add("A10x12", Arr(10, "12"))
			for _, p := range gen.Placements[1:] {
				add("A4x6@"+p.Name, Placed(Arr(4, "6"), p))
			}
			add("A4cont", Arr(4, "cont"))
			add("E3", EditStates(3, 6000))
		} else {
			add("A4x6", Arr(4, "6"))
			add("A6x123", Arr(6, "123"))
			for _, p := range gen.Placements[1:] {
				add("A3x6@"+p.Name, Placed(Arr(3, "6"), p))
			}
			add("A3cont", Arr(3, "cont"))
			add("E2", EditStates(2, 1200))
		}
	default:
		if thorough {
			add("A4x6", Arr(4, "6"))
			add("A6x123", Arr(6, "123"))
			add("A3x6@key", Placed(Arr(3, "6"), gen.Placements[1]))
			add("A3x6@deep", Placed(Arr(3, "6"), gen.Placements[3]))
			add("A3cont", Arr(3, "cont"))
			add("E2", EditStates(2, 1500))
		} else {
			add("A3x6", Arr(3, "6"))
			add("A5x123", Arr(5, "123"))
			add("A2x6@key", Placed(Arr(2, "6"), gen.Placements[1]))
			add("A2x6@deep", Placed(Arr(2, "6"), gen.Placements[3]))
			add("A3cont", Arr(3, "cont"))
			add("E1", EditStates(1, 400))
		}
	}
	return legs
}

func thin(t *TextSet, n int) *TextSet {
	if t.Len() <= n {
		return t
	}
	step := float64(t.Len()) / float64(n)
	var vs []V
	for i := 0; i < n; i++ {
		vs = append(vs, t.Vals[int(float64(i)*step)])
	}
	return NewTextSet(vs)
}

var allOptSets = []string{"none", "SET", "MULTISET", "SETKEYS:id", "SETKEYS:id,t", "MERGE", "SET+MERGE", "MULTISET+MERGE"}

func enumPairs(prefix string, opts []string) func(tier string, e *engine.Emitter) {
	return func(tier string, e *engine.Emitter) {
		for _, o := range opts {
			for _, l := range pairSpace(tier, o) {
				pairs(e, prefix+":"+o, l.Name+"/"+o, l.A, l.B)
			}
		}
	}
}

func pairBounds(opts []string) func(tier string) map[string]interface{} {
	return func(tier string) map[string]interface{} {
		m := map[string]interface{}{}
		for _, o := range opts {
			for _, l := range pairSpace(tier, o) {
				m[l.Name+"/"+o] = map[string]int{"documents": l.A.Len(), "ordered_pairs": l.A.Len() * l.B.Len()}
			}
		}
		return m
	}
}

package checks

import (
	"fmt"
	"os"
	"path/filepath"
	"strings"
	"time"
	"unicode/utf8"

	jd "github.com/josephburnett/jd/v2"

	"verif/mc/cli"
	"verif/mc/engine"
	"verif/mc/gen"
	"verif/mc/impl"
	"verif/mc/ref"
)

// ---------------------------------------------------------------------------------------
// (ii) well-formed hunk shapes built from the public DiffElement fields
// ---------------------------------------------------------------------------------------

var c02Payload = [][]V{
	{1.0, 2.0, 3.0},
	{"a", "b", "c"},
	{[]interface{}{1.0}, map[string]interface{}{"a": nil}, nil},
}

func ctxChoices() [][]V {
	return [][]V{nil, {ref.Void{}}, {"ctx"}}
}

type hunkShape2 struct {
	H     ref.Hunk
	Rep   bool // member of the pair representatives
	Rep3  bool // member of the triple representatives
	Class string
}

func c02Shapes() []hunkShape2 {
	var out []hunkShape2
	take := func(vals []V, from, n int) []V {
		if n == 0 {
			return nil
		}
		return append([]V{}, vals[from:from+n]...)
	}
	indexPaths := [][]ref.PE{{ref.I(0)}, {ref.I(1)}, {ref.K("a"), ref.I(1)}}
	for pi, p := range indexPaths {
		for bi, b := range ctxChoices() {
			for ai, a := range ctxChoices() {
				for nr := 0; nr <= 2; nr++ {
					for na := 0; na <= 2; na++ {
						if nr+na == 0 {
							continue
						}
						for v, pay := range c02Payload {
							all := append(append([]V{}, pay...), pay...)
							h := ref.Hunk{Path: p, Before: b, After: a, Remove: take(all, 0, nr), Add: take(all, nr, na)}
							rep := v == 0 && pi <= 1 && nr <= 1 && na <= 1
							rep3 := v == 0 && pi == 1 && nr+na == 1 && ((bi == 0 && ai == 0) || (bi == 1 && ai == 2) || (bi == 2 && ai == 1))
							out = append(out, hunkShape2{H: h, Rep: rep, Rep3: rep3, Class: "index"})
						}
					}
				}
			}
		}
	}
	// hand-written hunks with several context lines on a side (the boundary marker first / last)
	wideB := [][]V{{ref.Void{}, "ctx"}, {"c1", "ctx"}, {ref.Void{}, "c1", "ctx"}}
	wideA := [][]V{{"ctx", ref.Void{}}, {"ctx", "c2"}, {"ctx", "c2", ref.Void{}}}
	for _, p := range indexPaths {
		for _, b := range append(append([][]V{}, ctxChoices()...), wideB...) {
			for _, a := range append(append([][]V{}, ctxChoices()...), wideA...) {
				if len(b) <= 1 && len(a) <= 1 {
					continue
				}
				for _, ra := range [][2]int{{1, 0}, {0, 1}, {1, 1}, {2, 2}} {
					all := append(append([]V{}, c02Payload[0]...), c02Payload[0]...)
					h := ref.Hunk{Path: p, Before: b, After: a, Remove: take(all, 0, ra[0]), Add: take(all, ra[0], ra[1])}
					out = append(out, hunkShape2{H: h, Class: "index-wide"})
				}
			}
		}
	}
	keyPaths := [][]ref.PE{{ref.K("a")}, {ref.I(0), ref.K("a")}, {ref.K("a/b")}, {ref.K("")}, {ref.K("m~n"), ref.K("é\n\"")}, {}}
	for pi, p := range keyPaths {
		for _, ra := range [][2]int{{1, 0}, {0, 1}, {1, 1}} {
			for v, pay := range c02Payload {
				h := ref.Hunk{Path: p, Remove: take(pay, 0, ra[0]), Add: take(pay, 1, ra[1])}
				out = append(out, hunkShape2{H: h, Rep: v == 0 && pi == 0, Rep3: v == 0 && pi == 0 && ra == [2]int{1, 1}, Class: "key"})
			}
		}
	}
	setPaths := [][]ref.PE{{ref.SetPE()}, {ref.MsetPE()}, {ref.K("a"), ref.SetPE()}}
	for pi, p := range setPaths {
		for nr := 0; nr <= 3; nr++ {
			for na := 0; na <= 2; na++ {
				if nr+na == 0 {
					continue
				}
				for v, pay := range c02Payload {
					all := append(append([]V{}, pay...), "x", "y")
					h := ref.Hunk{Path: p, Remove: take(all, 0, nr), Add: take(all, 3, na)}
					if p[len(p)-1].Kind == "multiset" && nr == 2 {
						h.Remove[1] = h.Remove[0] // repeated member
					}
					out = append(out, hunkShape2{H: h, Rep: v == 0 && pi == 0 && nr <= 1 && na <= 1, Rep3: v == 0 && pi == 0 && nr == 1 && na == 1, Class: "set"})
				}
			}
		}
	}
	for v, pay := range c02Payload {
		kp := []ref.PE{ref.SetKeysPE(map[string]V{"id": pay[0]}), ref.K("v")}
		if v == 2 {
			kp = []ref.PE{ref.K("items"), ref.SetKeysPE(map[string]V{"id": 1.0, "t": "x"}), ref.K("v")}
		}
		out = append(out, hunkShape2{H: ref.Hunk{Path: kp, Remove: []V{1.0}, Add: []V{2.0}}, Rep: v == 0, Class: "keyed"})
		out = append(out, hunkShape2{H: ref.Hunk{Path: kp, Add: []V{pay[1]}}, Class: "keyed"})
		kp2 := append(append([]ref.PE{}, kp[:len(kp)-1]...), ref.K("v"), ref.SetPE())
		out = append(out, hunkShape2{H: ref.Hunk{Path: kp2, Remove: []V{1.0}, Add: []V{2.0, 3.0}}, Class: "keyed"})
	}
	// keyed multiset path elements ([{"id":1}]): the reader accepts them, the renderer prints them
	for _, pay := range c02Payload {
		mk := ref.PE{Kind: "multisetkeys", Keys: map[string]V{"id": pay[0]}}
		out = append(out, hunkShape2{H: ref.Hunk{Path: []ref.PE{mk, ref.K("v")}, Remove: []V{1.0}, Add: []V{2.0}}, Class: "keyed"})
		out = append(out, hunkShape2{H: ref.Hunk{Path: []ref.PE{ref.K("a"), mk}, Remove: []V{pay[1]}, Add: []V{pay[2], pay[0]}}, Class: "keyed"})
	}
	mergePaths := [][]ref.PE{{ref.K("a")}, {ref.K("a"), ref.K("b")}, {}, {ref.K("")}}
	for pi, p := range mergePaths {
		adds := []V{ref.Void{}, 1.0, "a", map[string]interface{}{}, []interface{}{1.0, nil}}
		for ai, a := range adds {
			out = append(out, hunkShape2{H: ref.Hunk{Path: p, Add: []V{a}, Merge: true}, Rep: pi <= 1 && ai <= 1, Rep3: pi == 0 && ai <= 1, Class: "merge"})
		}
	}
	return out
}

// strictThenMerge: the text format inherits metadata forward, so the representable sequences
// are strict hunks followed by merge hunks.
func strictThenMerge(hs []ref.Hunk) bool {
	seenMerge := false
	for _, h := range hs {
		if h.Merge {
			seenMerge = true
		} else if seenMerge {
			return false
		}
	}
	return true
}

var c02TargetsMemo []string

func c02Targets() []string {
	if c02TargetsMemo != nil {
		return c02TargetsMemo
	}
	vs := []V{}
	vs = append(vs, gen.Arrays(3, []V{1.0, "ctx"})...)
	vs = append(vs, gen.Arrays(2, []V{"a", 2.0})...)
	for _, x := range []V{1.0, "a", []interface{}{1.0}, []interface{}{"ctx", 1.0}, []interface{}{0.0, 1.0, "ctx"}, map[string]interface{}{"b": 1.0}, nil} {
		vs = append(vs, map[string]interface{}{"a": x}, []interface{}{map[string]interface{}{"a": x}})
	}
	vs = append(vs, map[string]interface{}{}, 1.0, "a", nil, map[string]interface{}{"a": 1.0, "b": 2.0},
		[]interface{}{map[string]interface{}{"id": 1.0, "v": 1.0}}, []interface{}{map[string]interface{}{"id": 1.0, "v": 1.0}, map[string]interface{}{"id": 2.0, "v": 1.0}},
		map[string]interface{}{"a": map[string]interface{}{"b": 1.0}})
	ts := NewTextSet(vs)
	c02TargetsMemo = append([]string{""}, ts.Texts...)
	return c02TargetsMemo
}

// ---------------------------------------------------------------------------------------
// (iii) string payloads
// ---------------------------------------------------------------------------------------

var c02Special = []string{"\n", "\r", "\t", "\"", "\\", "/", "<", ">", "&", "'", " ", "\x00", "\x7f", "\u0085", "\u2028", "\u2029", "\ufeff",
	"\u00e9", "\U0001F600", "@", "^", "[", "]", "+", "-", ":", "#", "~", "\x1b"}

var yamlWords = []string{"true", "yes", "on", "y", "n", "no", "off", "null", "~", "Null", "1", "1e3", "0x1F", "0o17", "1_000", ".inf", ".nan", "1:30",
	"2001-01-01", "<<", "=", "!!str", "&a", "*a", "|", ">", "%", "---", "...", "- x", "a: b", " #", "a ", " a", "", "0", "-0", "1.0", "+1", "TRUE", "Yes",
	"line1\nline2", "tab\there", "trailing\n", "\nleading", "[1]", "{a: 1}", "'q'", "\"q\"", "#c", "a #c", "? x", ": x", "@at", "`bt", "é", "😀", " "}

// c02Phrases: multi-character strings that a text-level post-processing step can mistake for something else:
// spelled-out escapes, printf verbs, the six-character spellings of every JSON escape, a line of more than 64 KiB.
var c02Phrases = []string{"\\u003c", "a \\u003cb\\u003e \\u0026", "\\u0026amp;", "\\n", "\\\\", "\\u0000", "\\\"", "50%", "100%d done %s", "%!f(MISSING)", "%%", "%v%s%d", "&lt;", "&amp;",
	"http://example.com/a/b?x=1&y=2", strings.Repeat("z", 70000),
	// the same text in composed and decomposed form, compatibility characters, bidi and zero-width characters
	"\u00e9", "e\u0301", "\u00c5", "A\u030a", "\u212b", "\ufb01", "fi", "\u1e9b\u0323", "\u200b", "a\u200db", "\u202eabc", "\U0001F468\u200d\U0001F469\u200d\U0001F467"}

func c02Strings(tier string) []string {
	var out []string
	for r := rune(0); r <= 0xFFFF; r++ {
		if r >= 0xD800 && r <= 0xDFFF {
			continue
		}
		out = append(out, string(r))
	}
	for plane := rune(1); plane <= 16; plane++ {
		out = append(out, string(plane<<16), string(plane<<16|0xFFFD))
	}
	for _, x := range c02Special {
		for _, y := range c02Special {
			out = append(out, x+y)
		}
	}
	out = append(out, yamlWords...)
	out = append(out, c02Phrases...)
	if tier == "thorough" {
		// every BMP rune next to a letter (both sides), every special symbol next to every
		// printable ASCII character, and all three-symbol strings over twelve special symbols
		for r := rune(0); r <= 0xFFFF; r++ {
			if r >= 0xD800 && r <= 0xDFFF {
				continue
			}
			out = append(out, "a"+string(r), string(r)+"a")
		}
		for _, x := range c02Special {
			for c := rune(0x20); c < 0x7f; c++ {
				out = append(out, x+string(c), string(c)+x)
			}
		}
		sp := c02Special[:12]
		for _, x := range sp {
			for _, y := range sp {
				for _, z := range sp {
					out = append(out, x+y+z)
				}
			}
		}
	}
	return out
}

func c02Opts(tier string) []string { return allOptSets }

func c02Legs(tier, o string) []pairLeg {
	legs := pairSpace(tier, o)
	limit := 170
	if tier == "thorough" {
		limit = 900
	}
	var out []pairLeg
	for _, l := range legs {
		if l.A.Len() > limit {
			l.A = thin(l.A, limit)
			l.B = l.A
		}
		out = append(out, l)
	}
	return out
}

func init() {
	engine.Register(&engine.Check{
		ID: "C02",
		Rule: "(i) every diff a.Diff(b,o) of the pair universes x 8 option sets: Render -> ReadDiffString -> Render is the identity on the text, colour output minus ANSI escapes equals the plain text, and the in-memory and the re-read diff " +
			"have the same effect on a, b and every one-edit neighbour of a; (ii) every well-formed hunk built from the public DiffElement fields (path kinds x before/after in {absent,boundary,value} x 0..2/3 removes x 0..2 adds x merge), every " +
			"ordered pair over representatives and every triple over a smaller set (strict-then-merge), same checks on a fixed target universe plus constructed witnesses; (iii) every one-rune string of the BMP, astral samples, all two-rune strings over a special alphabet and YAML-ambiguous words as value, key and set-key; non-trivial = rendered text non-empty",
		Bounds: func(tier string) map[string]interface{} {
			sh := c02Shapes()
			reps, reps3 := 0, 0
			for _, s := range sh {
				if s.Rep {
					reps++
				}
				if s.Rep3 {
					reps3++
				}
			}
			m := map[string]interface{}{"single_hunk_shapes": len(sh), "pair_representatives": reps, "triple_representatives": reps3,
				"targets": len(c02Targets()), "string_payloads": len(c02Strings(tier))}
			for _, o := range c02Opts(tier) {
				for _, l := range c02Legs(tier, o) {
					m[l.Name+"/"+o] = map[string]int{"documents": l.A.Len(), "ordered_pairs": l.A.Len() * l.A.Len()}
				}
			}
			return m
		},
		Enum: enumC02,
		Run:  runC02,
		Required: func(string) []string {
			return []string{"hunks/single", "hunks/pair", "hunks/triple", "string/", "diff/multi-hunk", "diff/single-hunk"}
		},
		Assume: []string{"well-formedness of hand-built hunks is the grammar in DESIGN.md section 6 (C02), fixed in the model", "sequences are strict hunks followed by merge hunks (metadata is inherited forward in the text format)"},
		Budget: budget(8*time.Minute, 45*time.Minute),
	})
}

func enumC02(tier string, e *engine.Emitter) {
	sh := c02Shapes()
	for _, s := range sh {
		e.Emit(engine.Case{Kind: "c02h", Leg: "hunks/single", X: ref.EncodeHunks([]ref.Hunk{s.H})})
	}
	for _, s1 := range sh {
		if !s1.Rep {
			continue
		}
		for _, s2 := range sh {
			if !s2.Rep {
				continue
			}
			hs := []ref.Hunk{s1.H, s2.H}
			if strictThenMerge(hs) {
				e.Emit(engine.Case{Kind: "c02h", Leg: "hunks/pair", X: ref.EncodeHunks(hs)})
			}
		}
	}
	for _, s1 := range sh {
		if !s1.Rep3 {
			continue
		}
		for _, s2 := range sh {
			if !s2.Rep3 {
				continue
			}
			for _, s3 := range sh {
				if !s3.Rep3 {
					continue
				}
				hs := []ref.Hunk{s1.H, s2.H, s3.H}
				if strictThenMerge(hs) {
					e.Emit(engine.Case{Kind: "c02h", Leg: "hunks/triple", X: ref.EncodeHunks(hs)})
				}
			}
		}
	}
	for _, s := range c02Strings(tier) {
		if !utf8.ValidString(s) {
			continue
		}
		e.Emit(engine.Case{Kind: "c02s", Leg: "strings", A: ref.JSON(s)})
	}
	// `jd a b` printed by the real process and applied with `jd -p`
	for _, bin := range []string{"jd-v2", "jd-top"} {
		for _, fl := range []string{"", "-set", "-mset"} {
			for _, a := range c02CLIDocs {
				for _, b := range c02CLIDocs {
					if a != b {
						e.Emit(engine.Case{Kind: "c02cli:" + bin, Leg: "cli/" + bin, A: a, B: b, X: fl})
					}
					if len(a) < 1000 && len(b) < 1000 {
						// the diff goes to a file that already holds an older, longer diff; equal inputs included
						e.Emit(engine.Case{Kind: "c02cli:" + bin, Leg: "cli-o/" + bin, A: a, B: b, X: strings.TrimSpace(fl + " @o")})
					}
				}
			}
		}
	}
	for _, o := range c02Opts(tier) {
		for _, l := range c02Legs(tier, o) {
			pairs(e, "c02d:"+o, l.Name+"/"+o, l.A, l.B)
		}
	}
}

func stripANSI(s string) string {
	s = strings.ReplaceAll(s, "\x1b[0m", "")
	s = strings.ReplaceAll(s, "\x1b[31m", "")
	return strings.ReplaceAll(s, "\x1b[32m", "")
}

func hunksEqual(a, b []ref.Hunk, rd ref.Reading) string {
	if len(a) != len(b) {
		return fmt.Sprintf("%d hunks became %d", len(a), len(b))
	}
	seq := func(x, y []V) bool {
		if len(x) != len(y) {
			return false
		}
		for i := range x {
			if ref.Canon(x[i], rd) != ref.Canon(y[i], rd) {
				return false
			}
		}
		return true
	}
	for i := range a {
		x, y := a[i], b[i]
		switch {
		case ref.PathJSON(x.Path) != ref.PathJSON(y.Path):
			return fmt.Sprintf("hunk %d: path %s became %s", i, ref.PathJSON(x.Path), ref.PathJSON(y.Path))
		case x.Merge != y.Merge:
			return fmt.Sprintf("hunk %d: merge flag %v became %v", i, x.Merge, y.Merge)
		case !seq(x.Before, y.Before):
			return fmt.Sprintf("hunk %d: before context changed", i)
		case !seq(x.After, y.After):
			return fmt.Sprintf("hunk %d: after context changed", i)
		case !seq(x.Remove, y.Remove):
			return fmt.Sprintf("hunk %d: removed values changed", i)
		case !seq(x.Add, y.Add):
			return fmt.Sprintf("hunk %d: added values changed", i)
		}
	}
	return ""
}

// carrierCheck: text identity and colour for a diff produced by mk(); returns the text.
func carrierCheck(mk func() jd.Diff, res *engine.Result, rd ref.Reading) (text string, fail string) {
	d := mk()
	text = d.Render()
	res.Transitions++
	d2, err := jd.ReadDiffString(text)
	res.Transitions++
	if err != nil {
		return text, "ReadDiffString(Render(d)) failed: " + err.Error()
	}
	if t2 := d2.Render(); t2 != text {
		return text, fmt.Sprintf("Render(ReadDiffString(t)) differs from t: %q", t2)
	}
	h1, err1 := impl.Hunks(d)
	h2, err2 := impl.Hunks(d2)
	if err1 != nil || err2 != nil {
		return text, fmt.Sprintf("diff not observable: %v %v", err1, err2)
	}
	// void additions of strict hunks have no text form; everything else must survive
	for i := range h1 {
		if !h1[i].Merge {
			var adds []V
			for _, v := range h1[i].Add {
				if !ref.IsVoid(v) {
					adds = append(adds, v)
				}
			}
			h1[i].Add = adds
		}
	}
	if msg := hunksEqual(h1, h2, rd); msg != "" {
		return text, "the re-read diff is not the diff that was rendered: " + msg
	}
	col := mk().Render(jd.COLOR)
	res.Transitions++
	if stripANSI(col) != text {
		return text, fmt.Sprintf("colour rendering minus ANSI escapes is not the plain rendering: %q", col)
	}
	return text, ""
}

// sameEffect applies the in-memory diff and the re-read diff to every target.
func sameEffect(mk func() jd.Diff, text string, targets []string, res *engine.Result, rd ref.Reading) string {
	for _, ct := range targets {
		o1 := impl.Patch(ct, mk())
		d2, err := jd.ReadDiffString(text)
		if err != nil {
			return "ReadDiffString failed on second read: " + err.Error()
		}
		o2 := impl.Patch(ct, d2)
		res.Transitions += 2
		res.Traces++
		if o1.Panic != "" || o2.Panic != "" {
			// crashes are C13's business unless the two carriers disagree
			if (o1.Panic != "") != (o2.Panic != "") {
				return fmt.Sprintf("on target %s the in-memory diff gives %s, the re-read diff %s", ct, o1, o2)
			}
			continue
		}
		if o1.OK != o2.OK || (o1.OK && ref.Canon(o1.Val, rd) != ref.Canon(o2.Val, rd)) {
			return fmt.Sprintf("on target %s the in-memory diff gives %s, the re-read diff %s", ct, o1, o2)
		}
	}
	return ""
}

var c02CLIDocs = []string{`{"a":1,"b":[1,2,3]}`, `{"a":"100% done %s %d","b":[1,"50%",3]}`, `["%!f(MISSING)","%%","%v"]`, `["\\u003c","<&>","\u2028"]`, `{"k":"` + strings.Repeat("y", 70000) + `"}`,
	`[1,[2,2],{"x":"é\ttab"}]`, `"plain"`, `[]`, `{"a":{"b":{"c":["%d",1e21]}}}`}

// runC02CLI: the text printed by `jd a b` is the library's rendering, and `jd -p` applied to it turns a into b.
func runC02CLI(c *engine.Case) engine.Result {
	bin := strings.TrimPrefix(c.Kind, "c02cli:")
	o := impl.Options(flagsToOptName(c.X))
	res := engine.Result{Traces: 1, Nontrivial: true, Bucket: "cli/" + o.Name}
	dir := cli.TempDir()
	defer os.RemoveAll(dir)
	fa := cli.WriteFile(dir, "a.json", c.A)
	fb := cli.WriteFile(dir, "b.json", c.B)
	toFile := strings.Contains(c.X, "@o")
	flags := strings.Fields(strings.ReplaceAll(c.X, "@o", ""))
	o = impl.Options(flagsToOptName(strings.Join(flags, " ")))
	dfile := filepath.Join(dir, "d.diff")
	args := append([]string{}, flags...)
	if toFile {
		os.WriteFile(dfile, []byte(strings.Repeat("@ [\"stale\"]\n- \"diff from an earlier run\"\n", 40)), 0644)
		args = append(args, "-o", dfile)
	}
	out := cli.Run(dir, cli.Bin(bin), append(args, fa, fb), nil)
	res.Transitions++
	if toFile {
		if out.Stdout != "" {
			res.Violation = fmt.Sprintf("jd -o printed to stdout: %q", out.Stdout)
			return res
		}
		b, err := os.ReadFile(dfile)
		if err != nil {
			res.Violation = "jd -o did not leave the output file in place: " + err.Error()
			return res
		}
		out.Stdout = string(b)
	}
	var want string
	if p := impl.Guard(func() { want = impl.Read(c.A).Diff(impl.Read(c.B), o.Opts...).Render() }); p != "" {
		res.Violation = "library: " + p
		return res
	}
	clip := func(s string) string {
		if len(s) > 300 {
			return s[:300] + "..."
		}
		return s
	}
	switch {
	case out.Timeout:
		res.Violation = "CLI did not terminate"
	case want == "" && out.Exit == 0 && out.Stdout == "":
		res.Bucket += "/equal"
		if toFile {
			// the (empty) diff in the file applies and changes nothing
			back := cli.Run(dir, cli.Bin(bin), append(append([]string{"-p"}, flags...), dfile, fa), nil)
			got, perr := ref.Parse(back.Stdout)
			if back.Exit != 0 || perr != nil || !ref.Equal(got, ref.MustParse(c.A), o.Reading) {
				res.Violation = fmt.Sprintf("jd -p applied to the -o file written for equal inputs: exit %d, output %q", back.Exit, clip(back.Stdout))
			}
		}
		return res
	case out.Exit != 1:
		res.Violation = fmt.Sprintf("jd %s a b: exit status %d, stderr %q", c.X, out.Exit, clip(firstLine(out.Stderr)))
	case out.Stdout != want:
		res.Violation = fmt.Sprintf("jd %s a b printed %q, the library renders the diff as %q", c.X, clip(out.Stdout), clip(want))
	}
	if res.Violation != "" {
		return res
	}
	fd := cli.WriteFile(dir, "d2.diff", out.Stdout)
	back := cli.Run(dir, cli.Bin(bin), append(append([]string{"-p"}, flags...), fd, fa), nil)
	res.Transitions++
	got, perr := ref.Parse(back.Stdout)
	if back.Exit != 0 || perr != nil || !ref.Equal(got, ref.MustParse(c.B), o.Reading) {
		res.Violation = fmt.Sprintf("jd -p %s applied to the printed diff: exit %d, output %q (stderr %q), not b", c.X, back.Exit, clip(back.Stdout), clip(firstLine(back.Stderr)))
	}
	return res
}

func runC02(c *engine.Case) engine.Result {
	if strings.HasPrefix(c.Kind, "c02cli:") {
		return runC02CLI(c)
	}
	res := engine.Result{}
	var fail, text string
	bucket := ""
	p := impl.Guard(func() {
		switch {
		case c.Kind == "c02h":
			hs := ref.DecodeHunks(c.X)
			mk := func() jd.Diff { return impl.Diff(hs) }
			text, fail = carrierCheck(mk, &res, ref.List)
			bucket = c.Leg
			if fail != "" {
				return
			}
			targets := append([]string{}, c02Targets()...)
			// witnesses: a document on which the sequence (prefixes of it) applies
			for i := range hs {
				if w, ok := ref.Witness(hs[i]); ok {
					targets = append(targets, ref.JSON(w))
					if t, _, rej := ref.ApplyHunks(w, hs[i:i+1]); rej == nil && i+1 < len(hs) {
						_ = t
					}
				}
			}
			fail = sameEffect(mk, text, targets, &res, ref.List)
		case c.Kind == "c02s":
			s := ref.MustParse(c.A).(string)
			bucket = "string/"
			ss := s + s
			if len(s) > 2000 {
				// Render aligns a replaced string with its replacement character by character
				// (a len x len table): keep the replacement short for very long strings
				ss = "q"
			}
			shapes := [][]ref.Hunk{
				{{Path: []ref.PE{ref.K("k")}, Remove: []V{s}, Add: []V{map[string]interface{}{"x": []interface{}{s}}}}},
				{{Path: []ref.PE{ref.I(0)}, Before: []V{ref.Void{}}, Remove: []V{s}, Add: []V{ss, "z"}, After: []V{s}}},
				{{Path: []ref.PE{ref.K(s)}, Add: []V{1.0}}},
				{{Path: []ref.PE{ref.K("k"), ref.K(s)}, Remove: []V{s}}},
				{{Path: []ref.PE{ref.SetKeysPE(map[string]V{"id": s}), ref.K("v")}, Remove: []V{1.0}, Add: []V{2.0}}},
				{{Path: []ref.PE{ref.SetPE()}, Remove: []V{s}, Add: []V{"q" + ss[len(ss)/2:]}}},
				{{Path: []ref.PE{ref.K(s)}, Add: []V{s}, Merge: true}},
			}
			for _, hs := range shapes {
				hs := hs
				mk := func() jd.Diff { return impl.Diff(hs) }
				text, fail = carrierCheck(mk, &res, ref.List)
				if fail != "" {
					return
				}
				if hs[0].Merge {
					continue
				}
				w, ok := ref.Witness(hs[0])
				if !ok {
					continue
				}
				wt := ref.JSON(w)
				if fail = sameEffect(mk, text, []string{wt}, &res, ref.List); fail != "" {
					return
				}
				want, _, rej := ref.ApplyHunks(w, hs)
				if rej != nil {
					continue
				}
				got := impl.Patch(wt, mk())
				res.Traces++
				if !got.OK || !ref.CompareMixed(want, got.Val) {
					fail = fmt.Sprintf("hunk with this string applied to %s gives %s, the hunk says %s", wt, got, ref.JSON(want.ToV()))
					return
				}
			}
		default:
			o := impl.Options(optOf(c.Kind))
			mk := func() jd.Diff { return impl.Read(c.A).Diff(impl.Read(c.B), o.Opts...) }
			n := len(mk())
			bucket = "diff/" + hunkShape(n) + "/" + o.Name
			text, fail = carrierCheck(mk, &res, o.Reading)
			if fail != "" || n == 0 {
				return
			}
			aV := ref.MustParse(c.A)
			targets := []string{c.A, c.B}
			var near []V
			if len(c.A) <= 400 { // edits of big documents cost O(n^2) and add nothing to a text round trip
				near = gen.Edits(aV, []V{1.0, "a"}, []string{"a", "z"})
			}
			for i, e := range near {
				if i >= 12 {
					break
				}
				targets = append(targets, ref.JSON(e))
			}
			fail = sameEffect(mk, text, targets, &res, o.Reading)
			if fail != "" {
				return
			}
			d2, _ := jd.ReadDiffString(text)
			out := impl.Patch(c.A, d2)
			if !out.OK || !ref.Equal(out.Val, ref.MustParse(c.B), o.Reading) {
				fail = "the re-read diff applied to a gives " + out.String() + ", not b"
			}
		}
	})
	if p != "" {
		fail = p
	}
	res.Bucket = bucket
	res.Nontrivial = text != ""
	if fail != "" {
		res.Violation = fail + " | text:\n" + text
	}
	return res
}

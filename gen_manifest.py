#!/usr/bin/env python3
"""Regenerates MANIFEST.json from the table below (kept in one place so it stays valid)."""
import json, subprocess
BASE_OFF = ("cd /repo && export GOFLAGS=-mod=mod GOPROXY=off && for m in . ./v2; do (cd /repo/$m && "
            "go test -json -vet=off -count=1 -timeout 25m ./...); done")
CHECKS = {
 "C01": ("all ordered pairs (a,b) of every listed document universe x 8 option sets, executed on the real library: a.Diff(b) applied in memory and via rendered text, result compared with Equals and with an independent canonical-form oracle",
         "6", "bounded-exhaustive enumeration of (a,b,options) with reference-model comparison"),
 "C04": ("all ordered pairs of the permutation/duplication-closed document universe plus one adversarial input per hashing shortcut, x 4 readings + Precision; Equals compared with canonical-form equality, symmetry and reflexivity on every pair",
         "6", "bounded-exhaustive enumeration of pairs with canonical-form oracle"),
 "C05": ("all ordered pairs x 7 option sets + Precision + hash-alias alphabet: Diff-empty <=> Equals <=> reference equality; plus CLI exit status over a reduced pair set x flags x formats x both binaries",
         "6", "bounded-exhaustive enumeration of pairs; process-level exit-status leg"),
 "C03": ("every sub-sequence of the hunks of every list-mode diff of the universes applied by the real Patch to a, b and every target within 1 (thorough: 2) structural edits of a, plus all U_n triples; accept/reject and result compared with an independent hunk interpreter written from the format documentation",
         "6", "deviation-bounded exhaustive enumeration of (diff sub-sequence, target) with reference hunk interpreter"),
 "C06": ("all ordered pairs of arrays over small alphabets with repeats (root + 3 nested placements) and of general documents: per array level removes/adds versus len-LCS from an independent DP, recursion into same-position containers, exactly one before/after context entry, context validated by replay through the reference interpreter",
         "6", "bounded-exhaustive enumeration of array pairs with LCS oracle and hunk-interpreter replay"),
 "C07": ("all ordered pairs x 6 option sets: per-hunk provenance replay (removed values come from a, added values survive into b, nothing listed on both sides, no hunk where a and b agree) and every leave-one-out sub-diff applied by the real Patch",
         "6", "bounded-exhaustive enumeration of pairs; per-hunk provenance replay and leave-one-out on the real code"),
 "C08": ("every set/multiset/SetKeys-mode diff of the universes (whole and hunk by hunk) applied by the real Patch to a, b, all permutations/duplications of a's arrays and all targets within 1 (thorough: 2) structural edits of a; accept/reject and result compared with a reference set/bag/keyed-member interpreter",
         "6", "deviation-bounded exhaustive enumeration of (set-mode diff, target) with reference set/bag interpreter"),
 "C02": ("every diff of the pair universes x 8 option sets, every well-formed hunk shape built from the public DiffElement fields (singles, pairs, triples; strict-then-merge) and every BMP one-rune / special two-rune / YAML-ambiguous string payload: Render/ReadDiffString/Render text identity, structural identity of the re-read diff, colour = plain + ANSI only, and same effect of in-memory and re-read diff on every target of a fixed universe plus constructed witnesses",
         "6", "bounded-exhaustive enumeration of diffs / hunk sequences / payloads with differential (in-memory vs re-read) and reference-interpreter oracles"),
 "C09": ("every list-mode diff of the universes (arrays in 4 placements, container elements, U_n, keys needing escaping / number-like / '-', edit graph): RenderPatch output parsed and evaluated by an independent RFC 6902/6901 implementation on a (must give b) and on every target within one edit of a where the native diff applies (same result); refusals only for inexpressible paths",
         "6", "bounded-exhaustive enumeration of diffs and targets with independent RFC 6902 evaluator"),
 "C11": ("all ordered pairs of null-free documents x {MERGE, SET+MERGE, MULTISET+MERGE}: RenderMerge text applied to a by the RFC 7386 pseudocode must give b under the reading",
         "6", "bounded-exhaustive enumeration of pairs with RFC 7386 reference algorithm"),
 "C12": ("all ordered (target, patch) pairs of a document universe with nulls and empty objects at every depth: ReadMergeString + Patch compared exactly with RFC 7386 MergePatch",
         "6", "bounded-exhaustive enumeration of (target, patch) with RFC 7386 reference algorithm"),
 "C10": ("jd's own RenderPatch output for every list-mode diff of the universes and every patch within 1 (thorough: 2) subset-preserving deviations of it, plus a complete small-scope enumeration of all 1- and 2-group patches (e in {0,1,2,-}, r,s<=2, context tests present/absent, values {1,2}, root and nested) on all arrays of length <= 3: whenever ReadPatchString+Patch succeeds the independent RFC 6902 evaluator must succeed with the same result",
         "6", "deviation-bounded and small-scope exhaustive enumeration of JSON Patch programs x targets with independent RFC 6902 evaluator"),
 "C17": ("v1 library: all ordered pairs of the C01 universes x 7 metadata sets: in-memory and text-carried diff-then-patch must reproduce b (Equals and canonical-form oracle), diff empty <=> Equals <=> reference equality",
         "6", "bounded-exhaustive enumeration of (a,b,metadata) on package lib with reference-model comparison"),
 "C18": ("v1 library: all ordered pairs of the universes incl. integer-looking / escape-needing keys: RenderPatch evaluated by the independent RFC 6902 evaluator and RenderMerge by the RFC 7386 pseudocode must give b; read back with the v1 readers and applied to a must give b",
         "6", "bounded-exhaustive enumeration of pairs with independent RFC 6902 / RFC 7386 evaluators"),
 "C15": ("call-history state exploration: for every (a,b,options) of the universes, and for diffs read from merge patches and JSON Patch documents, every history of read-only API calls up to length 2 (thorough: 3) over 8 operations is executed on live values; after each call the memory snapshot of (a,b,d) must be the initial one, each output must equal the fresh-value output and the final Patch must be unaffected; plus a 40-repetition determinism leg",
         "6", "exhaustive call-history exploration (explicit state = memory snapshot of the diff and documents) up to a depth bound"),
 "C16": ("every one-rune BMP string, astral samples, special two-rune strings, YAML-ambiguous words (alone and as key/value pairs), a number alphabet and U_4 in 9 embeddings: two independent YAML writers -> ReadYamlString versus ReadJsonString and the reference value; Yaml()/Json() read-back; CLI json2yaml|yaml2json on a subset",
         "6", "bounded-exhaustive enumeration of payload strings x embeddings with independent YAML writers as oracle"),
 "C13": ("all strings up to length 5 (thorough 6) over a 15-symbol alphabet into the five readers; all native-format line sequences up to length 6 (7) with pruning; all JSON Patch programs of <= 2 ops over all RFC ops x 11 pointers x 3 values (3 ops reduced); every diff of the universes x 5 option sets with 1 (2) structural corruptions; each accepted diff rendered and applied to a target set; CLI error classes through both binaries and -v2=false: no panic, no hang, exit 2 with a one-line message",
         "6", "bounded-exhaustive enumeration of texts / programs / deviation-bounded corruptions with crash (recover, process exit) oracle"),
 "C14": ("every ordered pair of input files x the complete set of valid flag vectors x 3 binaries x {file, stdin}: exit status, stdout and -o file of the real process compared with an in-process contract model that calls the library; -p round trip for every diff-mode run; translate modes, git diff driver, invalid vectors",
         "6 and Appendix B", "complete enumeration of the CLI configuration space (flag vectors x inputs x binaries) against a library-level contract model"),
}
EXTRA = {
 "C01": "; ladder universes beyond the small scope (DESIGN 3.2); chains in which a is the live result of an earlier Patch, two hops; near-number arrays under Precision(0.1)",
 "C02": "; wide-context and strict-then-merge shapes; CLI leg: `jd a b` equals the library rendering, `jd -p` of it gives b, also with -o over a stale file",
 "C03": "; complete triples over ulp-neighbour and look-alike-string arrays; hand-written hunks with 0-3 context lines per side; reordered hunks; strict hunks as text followed by a merge hunk",
 "C04": "; alias values in long lists / wide objects; both orders of Precision with the set options; duplicate / null / missing / look-alike ids under SetKeys; operands that are live results of Patch (9 constructions) under every option set",
 "C05": "; operands that are live results of Patch built under each reading; loose keyed arrays; CLI legs with invalid UTF-8 and YAML files",
 "C06": "; live operands (a, b or both; built at the array level, by replacement, through array positions and keyed members); no wholesale replacement of same-kind containers below keys; Precision legs; lists of 1 100 elements; every object over four keys inside a list",
 "C07": "; documents diffed against themselves; merge mode with nulls in a; live operands (a, b or both) under each reading",
 "C08": "; bags of 33-75 members; complete triples over hash-aliasing members; hand-written set / multiset hunks with a value on both sides; hand-written keyed-member hunks (one or two naming keys, null key values, members lacking a key)",
 "C09": "; keys that collide with nested paths when printed; the refusal clause read literally",
 "C10": "; displaced context tests; patch text with other text around it; pointer spellings (no leading '/', leading zeros, signs)",
 "C11": "; CLI leg (-f merge with -o, -color, -set, -yaml)",
 "C12": "; two patches in a row on the live result; depth-110 patches; CLI leg (target from file, stdin, -yaml, in place)",
 "C13": "; failure-message ladder; two-step legs; YAML token alphabet; 4/5-operation patch programs; unwritable -o targets",
 "C14": "; stdin as pipe / positioned regular file / /dev/null; hostile process environment; BOM and invalid UTF-8 inputs; patching in place",
 "C15": "; hand-written hunk sequences under every call history; YAML mappings read 30 times; environment flipped between repetitions; isolation leg against fresh processes; controlled map-iteration order; free-running -race pass (goroutines calling the read-only operations on unrelated and shared values)",
 "C16": "; every short JSON number text fed to both readers; unescaped character forms; YAML files with raw tabs; file-reading entry points",
 "C17": "; CLI leg through `jd -v2=false` with composite -setkeys; free-running -race pass on package lib",
 "C18": "; the re-read merge diff is rendered and read again",
}
NOT_YET = {}
def main():
    props=[json.loads(l) for l in open('/verif/properties.jsonl')]
    checks=[]; na=[]
    for p in props:
        pid=p['id']
        if pid in CHECKS:
            text,sec,tech=CHECKS[pid]
            checks.append({
              "property_id":pid,
              "quick_cmd":f"./run.sh {pid} quick",
              "thorough_cmd":f"./run.sh {pid} thorough",
              "evidence_file":f"/verif/evidence/{pid}.json",
              "replay_cmd_template":"./.work/bin/jdmc replay {path}",
              "engine":"jdmc",
              "level_claimed":{"category":"model_checking","text":text+EXTRA.get(pid,""),"design_ref":f"DESIGN.md section {sec} ({pid}), section 13 (legs added after the design)"},
              "level_note":"trusted: Go toolchain/runtime, encoding/json scanning, the reference models in /verif/mc/ref (self-tested against RFC 6902 App. A, RFC 7386 App. A, brute-force LCS and the documented hunk examples at the start of every run); bounds as listed in the evidence file",
              "technique":tech})
        else:
            na.append({"property_id":pid,"reason":NOT_YET.get(pid,"explorer for this property not built yet in this round; will be claimed once its check exists")})
    m={"version":1,
       "setup_cmd":"./setup.sh",
       "hooks":{"guard":"verifmaporder","enable":"no source hooks in /repo. The C15 map-order leg builds a second explorer binary with `go build -tags verifmaporder -overlay <generated>`: /verif/mc/cmd/maporder type-checks /repo/v2 and rewrites every range-over-map into a hook-controlled order in an overlay directory under /verif/.work; /repo is untouched and the tag is only used by files of /verif/mc",
                "baseline_off_cmd":BASE_OFF,"source_commits":[],"add_only":True},
       "engines":[{"name":"jdmc","path":"/verif/mc","serves_properties":sorted(CHECKS),
                   "kind_free_text":"hand-written explicit-state / bounded-exhaustive explorer in Go: deterministic complete enumeration of finite case spaces, hash-sharded over 16 worker processes, every case executed on the real library or binaries (rebuilt from /repo) and compared with reference models"}],
       "checks":checks,
       "notes":"Every check rebuilds jdmc and both jd binaries from /repo's working tree (build.sh). Known findings: /verif/known_findings.json. Replays: ./.work/bin/jdmc replay <file>.",
       "not_applicable":na}
    json.dump(m,open('/verif/MANIFEST.json','w'),indent=1)
    print("claimed",len(checks),"not_applicable",len(na))
main()

#!/usr/bin/env python3
"""Imports the sub-agent deliverables from /tmp/seed-Cxx.out/mutantK into /verif/seeded/Cxx-mK,
re-verifying each one in a scratch worktree of /repo: the patch applies and builds, the
repository's suite still passes, the demonstration passes on the clean tree and fails with the
change. Writes meta.json. Usage: seeded_import.py [Cxx ...]"""
import json, os, re, shutil, subprocess, sys, tempfile
ENV = dict(os.environ, GOFLAGS='-mod=mod', GOPROXY='off')
def sh(cmd, cwd):
    p = subprocess.run(cmd, shell=True, cwd=cwd, env=ENV, stdout=subprocess.PIPE, stderr=subprocess.STDOUT, text=True)
    return p.returncode, p.stdout
def demo_cmd(src):
    run = open(os.path.join(src, 'demo', 'RUN.txt')).read()
    files = sorted(os.listdir(os.path.join(src, 'demo')))
    tests = [f for f in files if f.endswith('_test.go')]
    scripts = [f for f in files if f.endswith('.sh')]
    m = re.search(r'-run\s+(\S+)', run)
    if tests and m:
        pkgdir = 'lib' if re.search(r'\blib\b', run) else 'v2'
        return {'kind': 'gotest', 'dir': pkgdir, 'files': tests, 'run': m.group(1), 'scripts': scripts}
    return {'kind': 'shell', 'scripts': scripts}
def run_demo(wt, src, d):
    ok = True; out = ''
    if d['kind'] == 'gotest':
        for f in d['files']:
            shutil.copy(os.path.join(src, 'demo', f), os.path.join(wt, d['dir'], f))
        rc, o = sh(f"go test -vet=off -count=1 -run '{d['run']}' .", os.path.join(wt, d['dir']))
        out += o; ok = ok and rc == 0
        for f in d['files']:
            os.remove(os.path.join(wt, d['dir'], f))
    for s in d.get('scripts', []):
        rc, o = sh(f"sh {os.path.join(src, 'demo', s)}", wt)
        out += o; ok = ok and rc == 0
    return ok, out
def main():
    ids = sys.argv[1:] or [f'C{i:02d}' for i in range(1, 19)]
    for pid in ids:
        for k in (1, 2):
            src = f"{os.environ.get('SEED_PREFIX','/tmp/seed-')}{pid}.out/mutant{k}"
            if not os.path.exists(os.path.join(src, 'patch.diff')):
                continue
            name = f"{pid}-{os.environ.get('SEED_TAG','m')}{k}"
            wt = tempfile.mkdtemp(prefix='jdmc-imp.', dir='/tmp'); os.rmdir(wt)
            subprocess.run(['git', '-C', '/repo', 'worktree', 'add', '-q', '--detach', wt, 'HEAD'], check=True)
            try:
                d = demo_cmd(src)
                clean_ok, clean_out = run_demo(wt, src, d)
                rc, o = sh(f"git apply {src}/patch.diff", wt)
                if rc != 0:
                    print(name, 'PATCH DOES NOT APPLY', o); continue
                rc_b, base = sh(f"/verif/baseline.sh {wt}", '/verif')
                mut_ok, mut_out = run_demo(wt, src, d)
                verdict = clean_ok and (not mut_ok) and rc_b == 0
                print(f"{name}: demo clean={'pass' if clean_ok else 'FAIL'} mutant={'fail' if not mut_ok else 'PASSES'} suite={'pass' if rc_b==0 else 'FAIL'} -> {'keep' if verdict else 'REJECT'}")
                if not verdict:
                    print(clean_out[-400:] if not clean_ok else '', base[-300:] if rc_b else '')
                    continue
                dst = f'/verif/seeded/{name}'
                shutil.rmtree(dst, ignore_errors=True); os.makedirs(dst)
                shutil.copy(os.path.join(src, 'patch.diff'), dst)
                shutil.copytree(os.path.join(src, 'demo'), os.path.join(dst, 'demo'))
                notes = open(os.path.join(src, 'notes.md')).read() if os.path.exists(os.path.join(src, 'notes.md')) else ''
                open(os.path.join(dst, 'notes.md'), 'w').write(notes)
                files = subprocess.run(['git', '-C', wt, 'diff', '--name-only'], stdout=subprocess.PIPE, text=True).stdout.split()
                meta = {'id': name, 'breaks_property': pid, 'source': 'fresh sub-agent given only the property text and a scratch worktree of /repo (nothing from /verif)',
                        'files_changed': files,
                        'needs_to_manifest': (re.search(r'(?is)(needs|manifest|trigger|only (shows|bites|when))[^\n]*\n?[^\n]*', notes) or [''])[0][:600] if notes else '',
                        'verified_here': {'patch_applies_and_builds': True, 'repository_suite': base.strip().splitlines()[0] if base.strip() else '',
                                          'demo_on_clean_tree': 'passes', 'demo_with_change': 'fails',
                                          'demo': d, 'how': 'seeded_import.py: scratch worktree under /tmp, git apply, /verif/baseline.sh <worktree>, demo run before and after'},
                        'detected_by': []}
                json.dump(meta, open(os.path.join(dst, 'meta.json'), 'w'), indent=1)
            finally:
                subprocess.run(['git', '-C', '/repo', 'worktree', 'remove', '--force', wt])
                shutil.rmtree(wt, ignore_errors=True)
main()

#!/bin/bash
# usage: run.sh <Cxx> <quick|thorough>     (JD_REPO=<dir> checks another tree than /repo)
VERIF_DIR="$(cd "$(dirname "$0")" && pwd)"
ID="$1"; TIER="${2:-quick}"
mkdir -p "$VERIF_DIR/.work"
LOG="$VERIF_DIR/.work/build.log.$$"
if ! BIN="$("$VERIF_DIR/build.sh" 2>"$LOG")"; then
  cat "$LOG" >&2; rm -f "$LOG"
  echo "ENGINE-ERROR: build against ${JD_REPO:-/repo} failed" >&2
  exit 3
fi
rm -f "$LOG"
BIN="$(echo "$BIN" | tail -1)"
export VERIF_DIR JDMC_BIN_DIR="$BIN" JDMC_TMP_DIR="$VERIF_DIR/.work/tmp" JDMC_ORD_BIN="$BIN/jdmc-ord"
exec "$BIN/jdmc" check "$ID" -tier "$TIER"

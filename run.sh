#!/bin/bash
# usage: run.sh <Cxx> <quick|thorough>
VERIF_DIR="$(cd "$(dirname "$0")" && pwd)"
ID="$1"; TIER="${2:-quick}"
if ! "$VERIF_DIR/build.sh" >"$VERIF_DIR/.work.build.log.$$" 2>&1; then
  mkdir -p "$VERIF_DIR/.work"
  cat "$VERIF_DIR/.work.build.log.$$" >&2; rm -f "$VERIF_DIR/.work.build.log.$$"
  echo "ENGINE-ERROR: build against /repo failed" >&2
  exit 3
fi
rm -f "$VERIF_DIR/.work.build.log.$$"
export VERIF_DIR JDMC_BIN_DIR="$VERIF_DIR/.work/bin" JDMC_TMP_DIR="$VERIF_DIR/.work/tmp"
exec "$VERIF_DIR/.work/bin/jdmc" check "$ID" -tier "$TIER"
